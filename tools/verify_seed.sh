#!/bin/bash
# verify_seed.sh <agent worktree containing seed/> <property id> [name]
# Confirms an independently written breaking change from its deliverables only (patch.diff, demo/):
# the patch applies to /repo HEAD in a fresh worktree, the baseline tests pass with it, the
# demonstration fails with it and passes without it. Stores it under /verif/seeded/<name>/.
set -u
WT=$1; PROP=$2; NAME=${3:-$PROP}
export CARGO_NET_OFFLINE=true
OUT=/verif/seeded/$NAME
mkdir -p $OUT
cp $WT/seed/patch.diff $OUT/patch.diff
rm -rf $OUT/demo; cp -r $WT/seed/demo $OUT/demo; rm -rf $OUT/demo/target
cp $WT/seed/meta.json $OUT/agent_meta.json 2>/dev/null
CLEAN=/tmp/verify_clean_$NAME; WITH=/tmp/verify_with_$NAME
for d in $CLEAN $WITH; do git -C /repo worktree remove --force $d 2>/dev/null; git -C /repo worktree add -q $d HEAD || exit 2; done
if ( cd $WITH && git apply $OUT/patch.diff ); then echo "patch applies to /repo HEAD: yes"; else echo "patch applies: NO"; fi
# reuse the agent's build output when present (same sources modulo the patch) to save time
[ -d $WT/target ] && cp -r $WT/target $WITH/target 2>/dev/null
( cd $WITH && cargo test --workspace --no-fail-fast --offline 2>&1 | grep -E "^test result" | awk '{p+=$4; f+=$6} END {print "tests with change: passed=" p " failed=" f}' )
rundemo() { if [ -f run.sh ]; then bash run.sh >/dev/null 2>&1; else cargo run --offline -q >/dev/null 2>&1; fi; }
sed -i "s#path = \"../..\"#path = \"$WITH\"#" $OUT/demo/Cargo.toml
( cd $OUT/demo && rundemo; echo "demo with change: exit $?" )
sed -i "s#path = \"$WITH\"#path = \"$CLEAN\"#" $OUT/demo/Cargo.toml
( cd $OUT/demo && rundemo; echo "demo without change: exit $?" )
sed -i "s#path = \"$CLEAN\"#path = \"../..\"#" $OUT/demo/Cargo.toml
rm -rf $OUT/demo/target $OUT/demo/docs $OUT/demo/schema.json
git -C /repo worktree remove --force $CLEAN
echo "worktree with the change: $WITH (remove with: git -C /repo worktree remove --force $WITH)"
