#!/bin/bash
# verify_seed.sh <worktree with the change applied and seed/ inside> <property id> [name]
# Confirms an independently written breaking change: the patch applies to /repo HEAD, the baseline
# tests pass with it, the demonstration fails with it and passes without it. Then stores it under
# /verif/seeded/<name>/ and reports which quick checks flag it.
set -u
WT=$1; PROP=$2; NAME=${3:-$PROP}
export CARGO_NET_OFFLINE=true
OUT=/verif/seeded/$NAME
mkdir -p $OUT
cp $WT/seed/patch.diff $OUT/patch.diff
rm -rf $OUT/demo; cp -r $WT/seed/demo $OUT/demo; rm -rf $OUT/demo/target
cp $WT/seed/meta.json $OUT/agent_meta.json 2>/dev/null
# 1. patch applies to the current /repo HEAD
CLEAN=/tmp/verify_clean_$NAME
git -C /repo worktree remove --force $CLEAN 2>/dev/null
git -C /repo worktree add -q $CLEAN HEAD || exit 2
( cd $CLEAN && git apply --check $OUT/patch.diff ) && echo "patch applies to /repo HEAD: yes" || { echo "patch applies: NO"; }
# 2. baseline tests with the change (in the agent's worktree, already built)
( cd $WT && cargo test --workspace --no-fail-fast --offline 2>&1 | grep -E "^test result" | awk '{p+=$4; f+=$6} END {print "tests with change: passed=" p " failed=" f}' )
# 3. demo with and without the change
sed -i "s#path = \"../..\"#path = \"$WT\"#" $OUT/demo/Cargo.toml
rundemo() { if [ -f run.sh ]; then bash run.sh >/dev/null 2>&1; else cargo run --offline -q >/dev/null 2>&1; fi; }
( cd $OUT/demo && rundemo; echo "demo with change: exit $?" )
sed -i "s#path = \"$WT\"#path = \"$CLEAN\"#" $OUT/demo/Cargo.toml
( cd $OUT/demo && rundemo; echo "demo without change: exit $?" )
sed -i "s#path = \"$CLEAN\"#path = \"../..\"#" $OUT/demo/Cargo.toml
rm -rf $OUT/demo/target
git -C /repo worktree remove --force $CLEAN
