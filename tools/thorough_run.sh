#!/bin/bash
# thorough_run.sh [<Cxx> ...] — run the thorough tier of the given (default: all) properties once on
# the unchanged tree; one summary line each with wall time.
cd "$(dirname "$0")/.."
./setup.sh >/dev/null 2>&1 || { echo "setup failed"; exit 2; }
PROPS=${@:-C01 C02 C05 C06 C07 C08 C10 C11 C12 C14 C16 C18 C19 C03 C04 C09 C13 C15 C17 C20}
for P in $PROPS; do
  T0=$(date +%s)
  OUT=$(./check $P thorough 2>&1); RC=$?
  T1=$(date +%s)
  echo "$P thorough exit=$RC wall=$((T1-T0))s $(echo "$OUT" | grep -E "^$P thorough" | tail -2 | tr '\n' ' ')"
  if [ $RC -ne 0 ]; then echo "$OUT" | grep -E "VIOLATION|FAILED|INFRA|INCONCL" | head -5; fi
done
