#!/usr/bin/env python3
"""Sensitivity run: for every patch under sensitivity/mutants/ (hand-written), sensitivity/agent_mutants/
(small mutants written by independent sub-agents) and seeded/*/patch.diff (independently written), apply it to a scratch worktree of /repo HEAD, confirm it is a *valid*
mutant (workspace compiles, every baseline test except the always-failing ui_tests passes), run the
quick checks of the properties it should disturb against it (VERIF_REPO) and record killed /
survived. Writes sensitivity/REPORT.md. Nothing is changed in /repo.

usage: sensitivity.py [--only <substring>[,<substring>...]] [--skip-tests]
"""
import json
import os
import re
import subprocess
import sys
import time

ROOT = os.path.dirname(os.path.dirname(os.path.abspath(__file__)))
WT = "/tmp/sens_wt_%d" % os.getpid()
ENV = dict(os.environ, CARGO_NET_OFFLINE="true")


def sh(cmd, cwd=None, timeout=3600, env=None):
    r = subprocess.run(cmd, cwd=cwd, env=env or ENV, stdout=subprocess.PIPE, stderr=subprocess.STDOUT, text=True, timeout=timeout)
    return r.returncode, r.stdout


def baseline_tests(wt):
    rc, out = sh(["cargo", "test", "--workspace", "--no-fail-fast", "--offline"], cwd=wt)
    passed = sum(int(x) for x in re.findall(r"test result: \w+\. (\d+) passed", out))
    failed_tests = re.findall(r"^test (\S+) \.\.\. FAILED", out, re.M)
    compiled = "error: could not compile" not in out and "error[E" not in out.split("Running")[0] if "Running" in out else "error: could not compile" not in out
    other_failed = [t for t in failed_tests if t != "ui_tests"]
    return compiled, passed, other_failed


def main():
    only = None
    skip_tests = False
    a = sys.argv[1:]
    while a:
        if a[0] == "--only":
            only = a[1]
            a = a[2:]
        elif a[0] == "--skip-tests":
            skip_tests = True
            a = a[1:]
        else:
            a = a[1:]
    items = []
    idx = os.path.join(ROOT, "sensitivity", "mutants", "INDEX.tsv")
    for line in open(idx):
        name, props, _file = line.rstrip("\n").split("\t")
        items.append(("mutants/" + name, os.path.join(ROOT, "sensitivity", "mutants", name + ".patch"), props.split(","), "hand-written"))
    # small mutants written by independent sub-agents (round 6): same layout, their own index
    aidx = os.path.join(ROOT, "sensitivity", "agent_mutants", "INDEX.tsv")
    if os.path.exists(aidx):
        for line in open(aidx):
            name, props, _summary = line.rstrip("\n").split("\t", 2)
            items.append(("agent_mutants/" + name, os.path.join(ROOT, "sensitivity", "agent_mutants", name + ".patch"), props.split(","), "independent sub-agent (small mutant)"))
    for d in sorted(os.listdir(os.path.join(ROOT, "seeded"))):
        p = os.path.join(ROOT, "seeded", d, "patch.diff")
        if os.path.exists(p):
            props = [d[:3]]
            items.append(("seeded/" + d, p, props, "independent sub-agent"))
    if only:
        items = [i for i in items if any(o in i[0] for o in only.split(","))]
    sh(["git", "-C", "/repo", "worktree", "remove", "--force", WT])
    rc, out = sh(["git", "-C", "/repo", "worktree", "add", "-q", WT, "HEAD"])
    if rc != 0:
        print(out)
        return 2
    results = []
    previous = []
    rp = os.path.join(ROOT, "sensitivity", "results.json")
    if only and os.path.exists(rp):
        # a partial run updates the entries it touches and keeps the rest
        previous = [r for r in json.load(open(rp)) if not any(r["name"] == i[0] for i in items)]
    try:
        for name, patch, props, origin in items:
            t0 = time.time()
            sh(["git", "-C", WT, "checkout", "-q", "--", "."])
            rc, out = sh(["git", "-C", WT, "apply", patch])
            if rc != 0:
                results.append({"name": name, "origin": origin, "valid": False, "why": "patch does not apply", "props": props, "checks": {}})
                print(name, "DOES NOT APPLY")
                continue
            if skip_tests:
                compiled, passed, other_failed = True, -1, []
            else:
                compiled, passed, other_failed = baseline_tests(WT)
            valid = compiled and not other_failed and (skip_tests or passed >= 92)
            rec = {"name": name, "origin": origin, "valid": valid, "tests_passed": passed, "tests_failed": other_failed, "props": props, "checks": {}}
            if valid:
                for p in props:
                    env = dict(ENV, VERIF_REPO=WT, VERIF_SEED=os.environ.get("VERIF_SEED", "0"))
                    try:
                        rc, out = sh([os.path.join(ROOT, "check"), p, "quick"], cwd=ROOT, env=env, timeout=2400)
                    except subprocess.TimeoutExpired:
                        rc, out = 2, "timeout"
                    reason = ""
                    for line in out.splitlines():
                        if "FAILED:" in line or "INFRASTRUCTURE" in line or "died with signal" in line:
                            reason = line.strip()[:300]
                            break
                    rec["checks"][p] = {"exit": rc, "reason": reason}
            rec["seconds"] = round(time.time() - t0, 1)
            results.append(rec)
            killed = [p for p, c in rec["checks"].items() if c["exit"] == 1]
            print("%-55s valid=%s tests=%s killed_by=%s other=%s (%.0fs)" % (name, valid, passed, killed, {p: c["exit"] for p, c in rec["checks"].items() if c["exit"] != 1}, rec["seconds"]), flush=True)
            json.dump(previous + results, open(os.path.join(ROOT, "sensitivity", "results.json"), "w"), indent=1)
    finally:
        sh(["git", "-C", "/repo", "worktree", "remove", "--force", WT])
    # drop entries whose patch no longer exists
    known = set(i[0] for i in items)
    if only:
        idx_names = set()
        for line in open(os.path.join(ROOT, "sensitivity", "mutants", "INDEX.tsv")):
            idx_names.add("mutants/" + line.split("\t")[0])
        previous = [r for r in previous if r["name"] in idx_names or r["name"].startswith("seeded/") or r["name"].startswith("agent_mutants/")]
    write_report(sorted(previous + results, key=lambda r: (r["name"].split("/")[0] != "mutants", r["name"].startswith("seeded/"), r["name"])))
    return 0


def write_report(results):
    lines = ["# Sensitivity report", "",
             "Every row is a change to the library sources applied to a scratch worktree of /repo HEAD. A row is *valid*",
             "when the workspace compiles and every baseline test except the always-failing `ui_tests` still passes.",
             "For each valid change the quick checks of the properties it should disturb were run against it",
             "(`VERIF_REPO=<worktree> ./check <id> quick`, seed 0). `killed` = the check exited 1 with a VIOLATION line.",
             "Produced by `tools/sensitivity.py`; raw data in `sensitivity/results.json`.", "",
             "| change | origin | valid | killed by | not killed by | first reason |", "|---|---|---|---|---|---|"]
    valid = [r for r in results if r["valid"]]
    for r in results:
        killed = [p for p, c in r["checks"].items() if c["exit"] == 1]
        notk = ["%s(exit %d)" % (p, c["exit"]) for p, c in r["checks"].items() if c["exit"] != 1]
        reason = next((c["reason"] for c in r["checks"].values() if c["exit"] == 1 and c["reason"]), "")
        why = "" if r["valid"] else " (%s)" % (r.get("why") or ("tests failing: " + ", ".join(r.get("tests_failed", [])[:3]) if r.get("tests_failed") else "does not compile or tests missing"))
        lines.append("| %s | %s | %s%s | %s | %s | %s |" % (r["name"], r["origin"], "yes" if r["valid"] else "no", why, ", ".join(killed) or "-", ", ".join(notk) or "-", reason.replace("|", "\\|")[:160]))
    k = sum(1 for r in valid if any(c["exit"] == 1 for c in r["checks"].values()))
    lines += ["", "Valid changes: %d; killed by at least one intended check: %d; survivors: %d." % (len(valid), k, len(valid) - k), ""]
    surv = [r["name"] for r in valid if not any(c["exit"] == 1 for c in r["checks"].values())]
    if surv:
        lines.append("Survivors: " + ", ".join(surv))
    open(os.path.join(ROOT, "sensitivity", "REPORT.md"), "w").write("\n".join(lines) + "\n")


if __name__ == "__main__":
    sys.exit(main())
