#!/usr/bin/env python3
"""Regenerates /verif/MANIFEST.json from the table below (kept in one place so it stays valid)."""
import json, os
ROOT = os.path.dirname(os.path.dirname(os.path.abspath(__file__)))

CHECKS = {
 "C01": ("stateful PBT over registration histories on a run-time programmable type family + builder histories + retain/round-trip closure, invariant checked after every step (proptest); libFuzzer targets retain, reg_struct in thorough",
         "Exploration: generated histories of register_type / register_types / map_into_portable over generated cyclic type graphs (16 programmable node types x 72 wrapper shapes covering every built-in constructor; also long histories of 280-640 distinct targets), builder histories under the documented discipline, retain masks and round trips; wf (id == index, resolve positional and total, every reference < n) is evaluated on Registry::types() after every operation and on every produced PortableRegistry.",
         "Trusted: the family's type_info() is built with the public builders from a generated spec. Rust types cannot be created at run time, so 'all types' is sampled through 16 programmable node types and the built-in constructors around them.", "2/C01"),
 "C02": ("PBT with two independent oracles over generated type graphs: harness-owned description of each type identity, and coinductive comparison of MetaType::type_info() with the portable entries (proptest); supervisor for termination",
         "Exploration over histories on cyclic / mutually recursive generated graphs: every id handed out is walked through every reference and each entry is compared with (1) what the harness spec says the type is and (2) the type's own type_info().",
         "Trusted: vtypes::desc (the harness's statement of what each built-in constructor and each programmed node must look like). PhantomData's own docs not asserted.", "2/C02"),
 "C03": ("generated-program PBT: derive inputs (TypeInfo + Encode) x entropy-driven values, each program compiled by rustc against the current tree and run; oracle = schema-directed SCALE decoder over the registry vs the value's model (proptest, AST shrinking)",
         "Exploration over programs: ~1200 (quick) / 30000 (thorough) generated programs of 1-3 definitions each with 12 values per root type. A compile failure is judged by the twin program without the TypeInfo derive. Members routed through macro_rules type fragments may carry any attribute (compact, encoded_as, skip, rename).",
         "Trusted: rustc; the codec derive 3.7.5 index rule; harness/vprog/src/dec.rs (decoder) and harness/vsupport (value models). Bounded by how many programs can be compiled.", "2/C03"),
 "C04": ("generated-program PBT: type expressions over all built-in constructors x values; oracle = schema-directed decoder vs model; shape check for char and 19/20-tuples (proptest)",
         "Exploration: generated nests (depth <= 3) over every built-in constructor family incl. all Compact/NonZero widths, BitVec store x order pairs, tuples up to 20, PhantomData positions. Programs contain alias twins (Vec<T> next to Vec<Box<T>> etc.) followed by further types; the decoder resolves ids by position as PortableRegistry::resolve does.",
         "Trusted: value generators/models for std types in harness/vsupport.", "2/C04"),
 "C09": ("generated-program PBT across two feature configurations (docs on/off): derive output vs expectation computed from the generator's AST (proptest)",
         "Exploration: ~700 programs per docs setting (quick), definitions with all attribute combinations, doc-comment forms, raw identifiers, lifetimes, macro_rules field types, whitespace-perturbed types. Rename targets include non-identifier strings (keywords, dashes, blanks, empty, raw prefix, non-ASCII, quotes).",
         "Type names compared after deleting all whitespace; block/inner docs and chained replacement rules not generated.", "2/C09"),
 "C17": ("generated-program PBT: builder call chains (compile-time and portable form, permuted setter orders) under docs on/off, plus PhantomData-erasure scan of registries from generated definitions and built-in expressions (proptest)",
         "Exploration: ~1800 builder chains and ~1000 PhantomData programs per quick run; built Type compared part by part with what was supplied.",
         "Same setter twice is not generated; portable docs only exist under the docs feature.", "2/C17"),
 "C05": ("stateful PBT with deliberate repetition and aliases; identity<->id bijection against a harness identity function, registry-unchanged-on-repeat, exact entry count, type_info call counters (proptest)",
         "Exploration over histories that re-register earlier roots through transparent wrappers and user aliases after unrelated registrations; checked after every registration.",
         "Trusted: vtypes::ident, the identity function written from the property statement.", "2/C05"),
 "C11": ("stateful PBT over histories: snapshot-extension invariant after every op, replay determinism (same thread / other thread), isomorphism under generated permutations of the roots (proptest)",
         "Exploration: every prefix of every generated history is compared with the next state; the whole history is replayed twice; the roots are re-registered in a generated order and the two registries must be isomorphic under the root-induced renaming.",
         "Cross-process reproducibility is observed by C15's fingerprints, not here.", "2/C11"),
 "C15": ("differential PBT across feature configurations: generated corpus programs compiled and run against scale-info built under 6 (quick) / 48 (thorough) feature sets; byte-equality of registry fingerprints (proptest over programs)",
         "Exploration over (program, feature-set pair): 160 programs x 15 pairs (quick); every distinct feature set in the thorough tier. Docs on/off compared modulo documentation strings. Programs may carry two replace_segment rules for one search key (only equality across feature sets is asserted).",
         "Host builds only (no Wasm target in the image); the derive feature is always on.", "2/C15"),
 "C16": ("PBT over triples of types: ==, cmp, hash, type_id against the independently computed declared identity TypeId::of::<T::Identity>(), plus coherence of definitions (proptest)",
         "Exploration over triples drawn from 72 shapes x 16 nodes (with aliases and nested wrappers) under generated specs: equality/order/hash laws and 'same declared identity => equal type_info()'.",
         "The declared identity is computed in the harness through a generic visitor, not through MetaType.", "2/C16"),
 "C06": ("differential PBT against a hand-written V14 reference encoder/decoder (proptest) + libFuzzer target reg_struct in thorough",
         "Exploration: tens of thousands (quick) to millions (thorough) of generated registries, wild and well-formed, are encoded by the library and by an independent reference codec written from the published layout; both directions are compared byte for byte. Sound for every registry explored; not a proof.",
         "Trusted: the reference codec in harness/vcore/src/refcodec.rs, parity-scale-codec's primitive encodings, proptest.", "2/C06"),
 "C07": ("round-trip, exact-consumption, determinism and injectivity PBT over generated registries and near-collision pairs (proptest)",
         "Exploration: generated registries with random trailers, single-point mutations and independent partners; a run-wide encoding->registry map detects any collision among everything generated.",
         "Trusted: model->library conversion through public constructors; proptest.", "2/C07"),
 "C08": ("differential PBT against an independent JSON writer built from the documented shape + read-back round trips (proptest)",
         "Exploration over generated registries with arbitrary Unicode; compares serde_json::to_value with the reference writer and checks from_value / from_str / pretty read-back and JSON==SCALE information content.",
         "Trusted: serde_json; reference writer harness/vcore/src/refjson.rs. Not asserted: member names inside a bitsequence object; null vs omitted type of a skipped parameter.", "2/C08"),
 "C10": ("model-based PBT: retain vs reference reachability + substitution on generated well-formed registries x masks (proptest); libFuzzer target retain in thorough",
         "Exploration over (registry, mask) pairs with cycles, self loops and params-only edges; oracle checks key set, bijection onto 0..m, well-formedness and per-entry equality modulo renaming. Histories (retain_chains): the same library object, optionally obtained by SCALE or JSON decoding, is retained 2-4 times in a row and then encoded; each step is judged against the model of the previous step.",
         "Trusted: the model's reference positions (MType::refs) enumerate the positions named in the statement.", "2/C10"),
 "C12": ("stateful model-based PBT: operation sequences on Interner / PortableRegistryBuilder vs a duplicate-free Vec (proptest)",
         "Exploration over op sequences with forced duplicates, self references through next_type_id and out-of-range lookups; every return value compared after every step.",
         "Trusted: the list model; proptest.", "2/C12"),
 "C13": ("generated-program PBT: one generic definition per program with premise-respecting instantiations; rustc as the oracle (twin without the derive must compile), run-time check of the parameter listing (proptest, AST shrinking)",
         "Exploration: ~1500 (quick) / 40000 (thorough) generated generic definitions covering parameter roles, lifetimes (incl. bounded), const parameters, defaults, inline/where bounds, skip_type_params and explicit bounds.",
         "rustc's trait solver is trusted; ?Sized parameters and mutually recursive generics without bounds(..) are outside the stated grammar.", "2/C13"),
 "C20": ("generated negative programs with positive twins, compiled one by one with rustc --emit=metadata; diagnostics classified by error code (proptest over the negative grammar)",
         "Exploration of the negative grammar (13 defect families x positions x forms x surrounding setters, a few hundred distinct programs): each negative must be rejected for the defect (twin compiles, no typo-class error), builder negatives by a type error, derive negatives additionally leaving no impl. The unbound parameter of a generated bounds negative may be used only by a codec(skip) member or a self-referential member type.",
         "Error wording is not matched; rustc error codes are trusted.", "2/C20"),
 "C14": ("fuzz-style PBT with fault injection: arbitrary and systematically corrupted SCALE bytes / JSON under catch_unwind and a counting allocator (proptest); libFuzzer targets scale_decode, json_decode in thorough",
         "Exploration + per-case fault enumeration (every truncation, every bit flip and every compact replacement of small valid encodings). Checks no panic/abort, linear memory envelope, canonical re-encode, total resolve.",
         "Assumes the envelope 128 KiB + 256 x input length expresses 'proportional'; worker death attributed by a supervisor process.", "2/C14"),
 "C19": ("PBT with an external validity oracle: generated registries serialised by the library and validated by python jsonschema against schemars::schema_for!(PortableRegistry) over a pipe (proptest, shrinking against the subprocess)",
         "Exploration over 20000 (quick) / 400000 (thorough) generated registries with every combination of present and omitted members, plus a registry of real types incl. a bit sequence; the schema is also checked against its meta-schema.",
         "Trusted: python jsonschema 4.26.", "2/C19"),
 "C18": ("exhaustive enumeration over a class-representative alphabet up to length 6 (7 thorough) + PBT of segment lists / module paths / replacement tables against a reference DFA (proptest)",
         "Exhaustive within the stated alphabet and length for single segments; exploration for lists, Path::new and new_with_replace (panic iff model rejects).",
         "Trusted: the reference DFA for (r#)?[A-Za-z_][A-Za-z0-9_]*; classes outside the 12-symbol alphabet are represented by one member each.", "2/C18"),
}

PENDING = {}
for i in range(1, 21):
    pid = "C%02d" % i
    if pid not in CHECKS:
        PENDING[pid] = "check not built yet in this revision (planned in DESIGN.md section 2; property-based testing applies)"

def main():
    extra = os.path.join(ROOT, "tools", "manifest_extra.json")
    checks = dict(CHECKS)
    pending = dict(PENDING)
    if os.path.exists(extra):
        x = json.load(open(extra))
        for k, v in x.get("checks", {}).items():
            checks[k] = tuple(v)
            pending.pop(k, None)
        for k, v in x.get("not_applicable", {}).items():
            pending[k] = v
    m = {
        "version": 1,
        "setup_cmd": "./setup.sh",
        "hooks": {
            "guard": "paritytech_scale_info_verif",
            "enable": "none needed: every observation point is public API or lives in the harness (no source hooks were added to /repo)",
            "baseline_off_cmd": "cd /repo && cargo test --workspace --no-fail-fast --offline",
            "source_commits": [],
            "add_only": True,
        },
        "engines": [
            {"name": "vrun", "path": "harness/vrun", "serves_properties": sorted(k for k in checks if k in {"C01","C02","C05","C06","C07","C08","C10","C11","C12","C14","C16","C18","C19"}),
             "kind_free_text": "proptest 1.11 driven from a binary (seeded ChaCha TestRng per thread, failure_persistence off), supervisor process for worker death"},
            {"name": "vprog", "path": "harness/vprog", "serves_properties": sorted(k for k in checks if k in {"C03","C04","C09","C13","C15","C17","C20"}),
             "kind_free_text": "proptest strategies over a program grammar; every case is Rust source compiled by a direct rustc call against scale-info built from /repo's working tree (anchor crate per feature set), run, and judged from its output"},
        ],
        "checks": [],
        "notes": "All checks: ./check <id> quick|thorough; VERIF_SEED selects the PRNG stream; exit 2 = infrastructure/inconclusive, never a violation. Fix commits in /repo are listed in known_findings.txt.",
        "not_applicable": [{"property_id": k, "reason": v} for k, v in sorted(pending.items())],
    }
    for pid in sorted(checks):
        tech, text, note, ref = checks[pid]
        m["checks"].append({
            "property_id": pid,
            "quick_cmd": "./check %s quick" % pid,
            "thorough_cmd": "./check %s thorough" % pid,
            "evidence_file": "evidence/%s.json" % pid,
            "replay_cmd_template": "./check %s --replay {path}" % pid,
            "engine": "vrun" if pid in {"C01","C02","C05","C06","C07","C08","C10","C11","C12","C14","C16","C18","C19"} else "vprog",
            "level_claimed": {"category": "exploration", "text": text, "design_ref": "DESIGN.md section " + ref},
            "level_note": note,
            "technique": tech,
        })
    json.dump(m, open(os.path.join(ROOT, "MANIFEST.json"), "w"), indent=1)
    print("wrote MANIFEST.json with", len(m["checks"]), "checks,", len(m["not_applicable"]), "not claimed")

main()
