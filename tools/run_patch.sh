#!/bin/bash
# run_patch.sh <patch file> <Cxx> [<Cxx> ...]  — apply a patch to a scratch worktree of /repo HEAD,
# run the quick checks of the given properties against it (VERIF_REPO), print one line per check.
set -u
PATCH=$(readlink -f "$1"); shift
WT=/tmp/patchrun_$$
git -C /repo worktree add -q $WT HEAD || exit 2
( cd $WT && git apply "$PATCH" ) || { echo "PATCH DOES NOT APPLY: $PATCH"; git -C /repo worktree remove --force $WT; exit 2; }
cd /verif
for P in "$@"; do
  OUT=$(VERIF_REPO=$WT timeout 1800 ./check $P ${TIER:-quick} 2>&1)
  RC=$?
  echo "$(basename $(dirname $PATCH))/$(basename $PATCH) $P exit=$RC $(echo "$OUT" | grep -E 'FAILED:|INFRASTRUCTURE' | head -1 | cut -c1-260)"
done
git -C /repo worktree remove --force $WT
