#!/usr/bin/env python3
"""Writes sensitivity/mutants/<name>.patch: hand-written realistic edits to /repo sources, one per
file, produced by exact string replacement in a scratch worktree of /repo HEAD.
Each entry: (name, [properties expected to notice], file, old, new)."""
import os
import subprocess
import sys

ROOT = os.path.dirname(os.path.dirname(os.path.abspath(__file__)))
OUT = os.path.join(ROOT, "sensitivity", "mutants")

M = []


def m(name, props, file, old, new):
    M.append((name, props, file, old, new))


# ------------------------------------------------------------------ C01 / C10 / C11 (registry, retain)
m("from_registry_sorted_by_path", ["C01", "C11", "C02"], "src/portable.rs",
  """            types: registry
                .types()
                .map(|(k, v)| PortableType {
                    id: k.id,
                    ty: v.clone(),
                })
                .collect::<Vec<_>>(),""",
  """            types: {
                // keep the output stable: order by path, then number consecutively
                let mut all = registry.types().map(|(_, v)| v.clone()).collect::<Vec<_>>();
                all.sort_by(|a, b| a.path.cmp(&b.path));
                all.into_iter()
                    .enumerate()
                    .map(|(i, ty)| PortableType { id: i as u32, ty })
                    .collect::<Vec<_>>()
            },""")
m("retain_skip_bit_order", ["C10", "C01"], "src/portable.rs",
  "                    bit_seq.bit_order_type = bit_order_id.into();",
  "                    let _ = bit_order_id;")
m("retain_tuple_not_remapped", ["C10", "C01"], "src/portable.rs",
  """                        let new_id = retain_type(ty.id, types, new_types, retained_mappings);
                        *ty = new_id.into();""",
  """                        let _new_id = retain_type(ty.id, types, new_types, retained_mappings);""")
m("retain_compact_not_recursed", ["C10", "C01"], "src/portable.rs",
  """                    let new_id =
                        retain_type(compact.type_param.id, types, new_types, retained_mappings);
                    compact.type_param = new_id.into();""",
  """                    if let Some(new_id) = retained_mappings.get(&compact.type_param.id) {
                        compact.type_param = (*new_id).into();
                    }""")
m("builder_finish_ids_from_one", ["C01", "C12"], "src/portable.rs",
  """                id: i as u32,
                ty: ty.clone(),
            })
            .collect();
        PortableRegistry { types }""",
  """                id: i as u32 + 1,
                ty: ty.clone(),
            })
            .collect();
        PortableRegistry { types }""")
m("builder_next_type_id_plus_one", ["C12"], "src/portable.rs",
  "        self.types.elements().len() as u32\n    }",
  "        self.types.elements().len() as u32 + 1\n    }")
m("builder_get_off_by_one", ["C12"], "src/portable.rs",
  "        self.types.elements().get(id as usize)",
  "        self.types.elements().get((id as usize).wrapping_sub(1))")
m("resolve_indexes_directly", ["C14", "C01"], "src/portable.rs",
  "        self.types.get(id as usize).map(|ty| &ty.ty)",
  "        if self.types.is_empty() {\n            return None;\n        }\n        Some(&self.types[id as usize].ty)")
m("register_type_evaluates_before_interning", ["C05", "C02"], "src/registry.rs",
  """        let (inserted, symbol) = self.intern_type_id(ty.type_id());
        if inserted {
            let portable_id = ty.type_info().into_portable(self);
            self.types.insert(symbol, portable_id);
        }
        symbol""",
  """        let info = ty.type_info();
        let (inserted, symbol) = self.intern_type_id(ty.type_id());
        if inserted {
            let portable_id = info.into_portable(self);
            self.types.insert(symbol, portable_id);
        }
        symbol""")
m("interner_resolve_off_by_one", ["C12"], "src/interner.rs",
  "        if idx >= self.vec.len() {\n            return None;\n        }",
  "        if idx > self.vec.len() {\n            return None;\n        }")

# ------------------------------------------------------------------------- C02 (portable conversion)
m("into_portable_drops_unnamed_field_docs", ["C02", "C17"], "src/ty/fields.rs",
  "            docs: self.docs.into_iter().map(Into::into).collect(),\n        }\n    }\n}\n\nimpl<T> Field<T>",
  "            docs: if self.name.is_some() {\n                self.docs.into_iter().map(Into::into).collect()\n            } else {\n                Vec::new()\n            },\n        }\n    }\n}\n\nimpl<T> Field<T>")
m("into_portable_array_len_u16", ["C02", "C04"], "src/ty/mod.rs",
  "            len: self.len,\n            type_param: registry.register_type(&self.type_param),",
  "            len: self.len as u16 as u32,\n            type_param: registry.register_type(&self.type_param),")
m("into_portable_variant_index_masked", ["C02", "C03"], "src/ty/variant.rs",
  "            index: self.index,\n            docs: self.docs.into_iter().map(Into::into).collect(),",
  "            index: self.index & 0x7f,\n            docs: self.docs.into_iter().map(Into::into).collect(),")
m("into_portable_type_name_lost_for_variant_fields", ["C02"], "src/ty/variant.rs",
  "            fields: registry.map_into_portable(self.fields),",
  "            fields: registry\n                .map_into_portable(self.fields)\n                .into_iter()\n                .map(|mut f: Field<PortableForm>| {\n                    if f.name.is_none() {\n                        f.type_name = None;\n                    }\n                    f\n                })\n                .collect(),")

# --------------------------------------------------------------------------------- C03 (derive)
m("derive_enumerate_before_filtering_skipped", ["C03", "C09"], "derive/src/lib.rs",
  "            .filter(|v| !utils::should_skip(&v.attrs))\n            .enumerate()",
  "            .enumerate()\n            .filter(|(_, v)| !utils::should_skip(&v.attrs))")
m("derive_compact_ignored_on_unnamed_fields", ["C03", "C09"], "derive/src/lib.rs",
  "                let type_of_method = if utils::is_compact(f) {",
  "                let type_of_method = if utils::is_compact(f) && f.ident.is_some() {")
m("derive_skip_ignored_in_tuple_variants", ["C03", "C09", "C13"], "derive/src/lib.rs",
  "            .filter(|f| !utils::should_skip(&f.attrs))\n            .map(|f| {\n                let (ty, ident) = (&f.ty, &f.ident);",
  "            .filter(|f| f.ident.is_none() && fields.len() > 2 || !utils::should_skip(&f.attrs))\n            .map(|f| {\n                let (ty, ident) = (&f.ty, &f.ident);")
m("derive_codec_index_only_below_128", ["C03", "C09"], "derive/src/utils.rs",
  "                    return Some(byte);",
  "                    if byte < 128 {\n                        return Some(byte);\n                    }")

# ------------------------------------------------------------------------------- C04 (built-ins)
m("impl_nonzero_u64_described_as_u32", ["C04"], "src/impls.rs", "    NonZeroU64: u64,", "    NonZeroU64: u32,")
m("impl_duration_fields_swapped", ["C04"], "src/impls.rs",
  """                .field(|f| {
                    // Seconds
                    f.ty::<u64>().type_name("u64")
                })
                .field(|f| {
                    // Nanoseconds
                    f.ty::<u32>().type_name("u32")
                }),""",
  """                .field(|f| {
                    // Nanoseconds
                    f.ty::<u32>().type_name("u32")
                })
                .field(|f| {
                    // Seconds
                    f.ty::<u64>().type_name("u64")
                }),""")
m("impl_btreemap_value_key", ["C04"], "src/impls.rs",
  ".composite(Fields::unnamed().field(|f| f.ty::<[(K, V)]>()))",
  ".composite(Fields::unnamed().field(|f| f.ty::<[(V, K)]>()))")
m("impl_range_inclusive_end_first", ["C04"], "src/impls.rs",
  """            .path(Path::prelude("RangeInclusive"))
            .type_params(type_params![Idx])
            .composite(
                Fields::named()
                    .field(|f| f.name("start").ty::<Idx>().type_name("Idx"))
                    .field(|f| f.name("end").ty::<Idx>().type_name("Idx")),""",
  """            .path(Path::prelude("RangeInclusive"))
            .type_params(type_params![Idx])
            .composite(
                Fields::named()
                    .field(|f| f.name("end").ty::<Idx>().type_name("Idx"))
                    .field(|f| f.name("start").ty::<Idx>().type_name("Idx")),""")
m("impl_result_params_swapped", ["C04", "C02"], "src/impls.rs",
  "            .path(Path::prelude(\"Result\"))\n            .type_params(type_params!(T, E))",
  "            .path(Path::prelude(\"Result\"))\n            .type_params(type_params!(E, T))")
m("impl_tuple_arity_7_drops_last", ["C04"], "src/impls.rs",
  "impl_metadata_for_tuple!(A, B, C, D, E, F, G);",
  """impl<A, B, C, D, E, F, G> TypeInfo for (A, B, C, D, E, F, G)
where
    A: TypeInfo + 'static,
    B: TypeInfo + 'static,
    C: TypeInfo + 'static,
    D: TypeInfo + 'static,
    E: TypeInfo + 'static,
    F: TypeInfo + 'static,
    G: TypeInfo + 'static,
{
    type Identity = Self;

    fn type_info() -> Type {
        TypeDefTuple::new(tuple_meta_type!(A, B, C, D, E, F)).into()
    }
}""")

# ----------------------------------------------------------------------------- C05 / C16 (identity)
m("impl_rc_identity_self", ["C05"], "src/impls.rs",
  "impl<T> TypeInfo for Rc<T>\nwhere\n    T: TypeInfo + ?Sized + 'static,\n{\n    type Identity = T::Identity;",
  "impl<T> TypeInfo for Rc<T>\nwhere\n    T: TypeInfo + ?Sized + 'static,\n{\n    type Identity = Self;")
m("impl_cow_identity_target", ["C16", "C05", "C04"], "src/impls.rs",
  "    T: ToOwned + TypeInfo + ?Sized + 'static,\n{\n    type Identity = Self;",
  "    T: ToOwned + TypeInfo + ?Sized + 'static,\n{\n    type Identity = T::Identity;")
m("metatype_eq_by_fn_pointer", ["C16", "C05"], "src/meta_type.rs",
  "        self.type_id == other.type_id\n    }",
  "        self.fn_type_info as usize == other.fn_type_info as usize\n    }")
m("metatype_new_uses_own_type_id", ["C16", "C05"], "src/meta_type.rs",
  "            type_id: TypeId::of::<T::Identity>(),",
  "            type_id: if core::mem::size_of::<&T>() > core::mem::size_of::<usize>() {\n                TypeId::of::<T>()\n            } else {\n                TypeId::of::<T::Identity>()\n            },")

# ------------------------------------------------------------------------- C06 / C07 (wire format)
m("codec_tuple_primitive_tags_swapped", ["C06"], "src/ty/mod.rs",
  "    #[codec(index = 4)]\n    Tuple(TypeDefTuple<T>),\n    /// A Rust primitive type.\n    #[codec(index = 5)]\n    Primitive(TypeDefPrimitive),",
  "    #[codec(index = 5)]\n    Tuple(TypeDefTuple<T>),\n    /// A Rust primitive type.\n    #[codec(index = 4)]\n    Primitive(TypeDefPrimitive),")
m("codec_portable_type_id_not_compact", ["C06"], "src/portable.rs",
  "    /// The ID of the portable type.\n    #[codec(compact)]\n    pub id: u32,",
  "    /// The ID of the portable type.\n    pub id: u32,")
m("codec_field_name_after_type", ["C06"], "src/ty/fields.rs",
  """    /// The name of the field. None for unnamed fields.
    #[cfg_attr(
        feature = "serde",
        serde(skip_serializing_if = "Option::is_none", default)
    )]
    pub name: Option<T::String>,
    /// The type of the field.
    #[cfg_attr(feature = "serde", serde(rename = "type"))]
    pub ty: T::Type,""",
  """    /// The type of the field.
    #[cfg_attr(feature = "serde", serde(rename = "type"))]
    pub ty: T::Type,
    /// The name of the field. None for unnamed fields.
    #[cfg_attr(
        feature = "serde",
        serde(skip_serializing_if = "Option::is_none", default)
    )]
    pub name: Option<T::String>,""")
m("codec_u256_i8_tags_swapped", ["C06"], "src/ty/mod.rs",
  "    #[codec(index = 8)]\n    U256,\n    /// `i8`\n    #[codec(index = 9)]\n    I8,",
  "    #[codec(index = 9)]\n    U256,\n    /// `i8`\n    #[codec(index = 8)]\n    I8,")
m("codec_variant_docs_skipped", ["C07", "C06"], "src/ty/variant.rs",
  "    pub index: u8,\n    /// Documentation\n    #[cfg_attr(\n        feature = \"serde\",\n        serde(skip_serializing_if = \"Vec::is_empty\", default)\n    )]\n    pub docs: Vec<T::String>,",
  "    pub index: u8,\n    /// Documentation\n    #[cfg_attr(\n        feature = \"serde\",\n        serde(skip_serializing_if = \"Vec::is_empty\", default)\n    )]\n    #[codec(skip)]\n    pub docs: Vec<T::String>,")

# ---------------------------------------------------------------------------------- C08 (JSON)
m("json_bitsequence_tag_renamed", ["C08", "C19"], "src/ty/mod.rs",
  "    #[codec(index = 7)]\n    BitSequence(TypeDefBitSequence<T>),",
  "    #[codec(index = 7)]\n    #[cfg_attr(feature = \"serde\", serde(rename = \"bitSequence\"))]\n    BitSequence(TypeDefBitSequence<T>),")
m("json_composite_fields_no_default", ["C08"], "src/ty/composite.rs",
  "        serde(skip_serializing_if = \"Vec::is_empty\", default)\n    )]\n    pub fields: Vec<Field<T>>,",
  "        serde(skip_serializing_if = \"Vec::is_empty\")\n    )]\n    pub fields: Vec<Field<T>>,")
m("json_field_docs_always_written", ["C08"], "src/ty/fields.rs",
  "        serde(skip_serializing_if = \"Vec::is_empty\", default)\n    )]\n    pub docs: Vec<T::String>,",
  "        serde(default)\n    )]\n    pub docs: Vec<T::String>,")

# ------------------------------------------------------------------------------- C09 (derive mirror)
m("derive_docs_trim_start", ["C09"], "derive/src/lib.rs",
  "let stripped = lit_value.strip_prefix(' ').unwrap_or(&lit_value);",
  "let stripped = lit_value.trim_start();")
m("derive_rename_ignored_in_enum_variants", ["C09", "C03"], "derive/src/lib.rs",
  "                        let fields = self.generate_fields(&fs.named);\n                        Some(quote! {\n                            .fields(#scale_info::build::Fields::named()",
  "                        let mut plain = fs.named.clone();\n                        for f in plain.iter_mut() {\n                            f.attrs.retain(|a| !a.path().is_ident(\"scale_info\"));\n                        }\n                        let fields = self.generate_fields(&plain);\n                        Some(quote! {\n                            .fields(#scale_info::build::Fields::named()")
m("derive_type_params_reversed", ["C09", "C13", "C02"], "derive/src/lib.rs",
  "                        .type_params(#scale_info::prelude::vec![ #( #type_params ),* ])",
  "                        .type_params({\n                            let mut ps = #scale_info::prelude::vec![ #( #type_params ),* ];\n                            if ps.len() > 2 {\n                                ps.reverse();\n                            }\n                            ps\n                        })")
m("derive_replace_only_in_module_path", ["C09"], "src/ty/path.rs",
  "            segments\n                .chain(iter::once(ident))\n                .map(|s| segment_replace.iter().find(|r| s == r.0).map_or(s, |r| r.1)),",
  "            segments\n                .map(|s| segment_replace.iter().find(|r| s == r.0).map_or(s, |r| r.1))\n                .chain(iter::once(ident)),")

# -------------------------------------------------------------------------------- C13 (bounds)
m("derive_no_self_reference_filter", ["C13", "C03"], "derive/src/trait_bounds.rs",
  "                !type_or_sub_type_path_starts_with_ident(ty, input_ident)",
  "                (!type_or_sub_type_path_starts_with_ident(ty, input_ident) || ty_params.len() > 1)")
m("derive_typeinfo_bound_for_skipped_params", ["C13"], "derive/src/trait_bounds.rs",
  "            .map_or(true, |skip| !skip.skip(type_param))\n        {\n            bounds.push(parse_quote!(#scale_info ::TypeInfo));",
  "            .map_or(true, |skip| !skip.skip(type_param) || !type_param.bounds.is_empty())\n        {\n            bounds.push(parse_quote!(#scale_info ::TypeInfo));")
m("derive_custom_bounds_forget_static", ["C13"], "derive/src/trait_bounds.rs",
  "        for type_param in generics.type_params() {\n            let ident = &type_param.ident;\n            where_clause.predicates.push(parse_quote!(#ident: 'static))\n        }",
  "        for type_param in generics.type_params().skip(1) {\n            let ident = &type_param.ident;\n            where_clause.predicates.push(parse_quote!(#ident: 'static))\n        }")

# ---------------------------------------------------------------------------------- C15 (features)
m("impl_duration_type_name_depends_on_std", ["C15"], "src/impls.rs",
  "                    // Nanoseconds\n                    f.ty::<u32>().type_name(\"u32\")",
  "                    // Nanoseconds\n                    f.ty::<u32>().type_name(if cfg!(feature = \"std\") { \"u32\" } else { \"core::u32\" })")
m("build_docs_always_gated_by_serde", ["C15", "C17", "C09"], "src/build.rs",
  "    pub fn docs_always(mut self, docs: &[&'static str]) -> Self {\n        self.docs = docs.to_vec();\n        self\n    }\n}\n\n/// A fields builder has no fields (e.g. a unit struct)",
  "    pub fn docs_always(mut self, docs: &[&'static str]) -> Self {\n        if cfg!(feature = \"serde\") || !cfg!(feature = \"std\") {\n            self.docs = docs.to_vec();\n        }\n        self\n    }\n}\n\n/// A fields builder has no fields (e.g. a unit struct)")

# ---------------------------------------------------------------------------------- C17 (builders)
m("build_phantom_filter_only_named", ["C17", "C03", "C04"], "src/build.rs",
  "        // filter out fields of PhantomData\n        if !field.ty.is_phantom() {",
  "        // filter out fields of PhantomData\n        if !(field.ty.is_phantom() && field.name.is_some()) {")
m("build_tuple_phantom_unfiltered", ["C17", "C04"], "src/ty/mod.rs",
  "                .filter(|ty| !ty.is_phantom())\n                .collect(),",
  "                .collect(),")
m("build_variants_prepend", ["C17", "C02"], "src/build.rs",
  "        let builder = builder(VariantBuilder::new(name));\n        self.variants.push(builder.finalize());",
  "        let builder = builder(VariantBuilder::new(name));\n        self.variants.insert(0, builder.finalize());")
m("build_type_name_clears_docs_portable", ["C17"], "src/build.rs",
  "            type_name: Some(type_name),\n            docs: self.docs,",
  "            type_name: Some(type_name),\n            docs: Default::default(),")

# ----------------------------------------------------------------------------------- C18 (paths)
m("ident_digit_head_allowed", ["C18"], "src/utils.rs",
  "let head_ok = head == b'_' || head.is_ascii_lowercase() || head.is_ascii_uppercase();",
  "let head_ok = head == b'_' || head.is_ascii_alphanumeric();")
m("path_error_reports_last_bad_segment", ["C18"], "src/ty/path.rs",
  "segments.iter().position(|seg| !is_rust_identifier(seg))",
  "segments.iter().rposition(|seg| !is_rust_identifier(seg))")
m("ident_dash_allowed_in_tail", ["C18"], "src/utils.rs",
  "            ch == b'_' || ch.is_ascii_lowercase() || ch.is_ascii_uppercase() || ch.is_ascii_digit()",
  "            ch == b'_' || ch == b'-' || ch.is_ascii_lowercase() || ch.is_ascii_uppercase() || ch.is_ascii_digit()")

# ---------------------------------------------------------------------------------- C19 (schema)
# ------------------------------------------------------------------------------- C20 (rejections)
m("schema_symbol_as_string", ["C19"], "src/interner.rs",
  "        gen.subschema_for::<u32>()\n    }\n}\n\n/// A symbol from an interner.",
  "        gen.subschema_for::<String>()\n    }\n}\n\n/// A symbol from an interner.")

m("attr_duplicate_capture_docs_allowed", ["C20"], "derive/src/attr.rs",
  "                        if capture_docs.is_some() {\n                            return Err(syn::Error::new(",
  "                        if capture_docs.is_some() && false {\n                            return Err(syn::Error::new(")
m("attr_invalid_capture_docs_means_default", ["C20"], "derive/src/attr.rs",
  "            _ => Err(syn::Error::new_spanned(\n                capture_docs_lit,\n                r#\"Invalid capture_docs value. Expected one of: \"default\", \"always\", \"never\" \"#,\n            )),",
  "            other if other.len() > 6 => Ok(Self::Default),\n            _ => Err(syn::Error::new_spanned(\n                capture_docs_lit,\n                r#\"Invalid capture_docs value. Expected one of: \"default\", \"always\", \"never\" \"#,\n            )),")
m("attr_unbound_param_check_skipped_with_skip_attr", ["C20"], "derive/src/attr.rs",
  "        if let Some(ref bounds) = bounds {\n            for type_param in item.generics.type_params() {",
  "        if let (Some(ref bounds), None) = (&bounds, &skip_type_params) {\n            for type_param in item.generics.type_params() {")
m("build_variant_closure_state_generic", ["C20"], "src/build.rs",
  "    pub fn variant<B>(mut self, name: F::String, builder: B) -> Self\n    where\n        B: Fn(VariantBuilder<F>) -> VariantBuilder<F, variant_state::IndexAssigned>,\n    {\n        let builder = builder(VariantBuilder::new(name));\n        self.variants.push(builder.finalize());",
  "    pub fn variant<B, S>(mut self, name: F::String, builder: B) -> Self\n    where\n        B: Fn(VariantBuilder<F>) -> VariantBuilder<F, S>,\n    {\n        let b = builder(VariantBuilder::new(name));\n        let index = b.index.unwrap_or(self.variants.len() as u8);\n        self.variants.push(Variant::new(b.name, b.fields, index, b.docs));")


def main():
    os.makedirs(OUT, exist_ok=True)
    wt = "/tmp/mkmutants_wt"
    subprocess.run(["git", "-C", "/repo", "worktree", "remove", "--force", wt], stderr=subprocess.DEVNULL)
    subprocess.run(["git", "-C", "/repo", "worktree", "add", "-q", wt, "HEAD"], check=True)
    index = []
    bad = 0
    for name, props, file, old, new in M:
        p = os.path.join(wt, file)
        s = open(p).read()
        if s.count(old) != 1:
            print("CANNOT APPLY %s: pattern occurs %d times in %s" % (name, s.count(old), file))
            bad += 1
            continue
        open(p, "w").write(s.replace(old, new))
        d = subprocess.run(["git", "-C", wt, "diff"], stdout=subprocess.PIPE, text=True).stdout
        open(os.path.join(OUT, name + ".patch"), "w").write(d)
        subprocess.run(["git", "-C", wt, "checkout", "-q", "--", "."], check=True)
        index.append("%s\t%s\t%s" % (name, ",".join(props), file))
    open(os.path.join(OUT, "INDEX.tsv"), "w").write("\n".join(index) + "\n")
    subprocess.run(["git", "-C", "/repo", "worktree", "remove", "--force", wt])
    print("wrote %d mutants, %d could not be applied" % (len(index), bad))


if __name__ == "__main__":
    sys.exit(main())
