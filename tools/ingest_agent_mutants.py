#!/usr/bin/env python3
"""ingest_agent_mutants.py <agent worktree> <Cxx> — copy the small mutants an independent sub-agent
left in <worktree>/seed (m*.diff + mutants.json) into sensitivity/agent_mutants/ and index them.
Validation (applies to /repo HEAD, compiles, baseline tests pass) and the checks are run by
tools/sensitivity.py --only agent_mutants/<Cxx>."""
import json
import os
import shutil
import sys

ROOT = os.path.dirname(os.path.dirname(os.path.abspath(__file__)))
wt, prop = sys.argv[1], sys.argv[2]
out = os.path.join(ROOT, "sensitivity", "agent_mutants")
os.makedirs(out, exist_ok=True)
meta = json.load(open(os.path.join(wt, "seed", "mutants.json")))
idx = os.path.join(out, "INDEX.tsv")
lines = [l for l in open(idx)] if os.path.exists(idx) else []
lines = [l for l in lines if not l.startswith(prop + "_")]
for m in meta:
    src = os.path.join(wt, "seed", m["file"])
    if not os.path.exists(src) or os.path.getsize(src) == 0:
        print("missing or empty", src)
        continue
    name = "%s_%s" % (prop, os.path.splitext(m["file"])[0])
    shutil.copy(src, os.path.join(out, name + ".patch"))
    summary = (m.get("summary", "") + " | breaks: " + m.get("breaks", "")).replace("\t", " ").replace("\n", " ")
    lines.append("%s\t%s\t%s\n" % (name, prop, summary))
open(idx, "w").write("".join(sorted(lines)))
print("ingested", prop, len(meta))
