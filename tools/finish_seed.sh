#!/bin/bash
# finish_seed.sh <Cxx> <suffix> <slot>  — round-7 pipeline for one agent worktree /tmp/seed<suffix>_<Cxx>:
# verify (tools/verify_seed.sh), run the intended quick check against the patched worktree in its own
# scratch target directory (VERIF_ALT=target-alt<slot>), write seeded/<Cxx><suffix>/meta.json and
# remove the worktrees. Output: /tmp/finish_<Cxx><suffix>.log
set -u
P=$1; SUF=$2; SLOT=${3:-1}
WT=/tmp/seed${SUF}_$P; NAME=$P$SUF
cd /verif
LOG=/tmp/finish_$NAME.log
{
tools/verify_seed.sh $WT $P $NAME
WITH=/tmp/verify_with_$NAME
rm -rf $WITH/target
OUT=$(VERIF_ALT=target-alt$SLOT VERIF_REPO=$WITH timeout 2400 ./check $P quick 2>&1); RC=$?
echo "CHECK $P exit=$RC"
echo "$OUT" | grep -E "FAILED:|VIOLATION|INFRASTRUCTURE|harness:" | head -5 | cut -c1-600
echo "$OUT" | tail -3
git -C /repo worktree remove --force $WITH
} > $LOG 2>&1
python3 - "$P" "$NAME" "$LOG" <<'PY'
import json,sys,re,os
p,name,log=sys.argv[1:]
t=open(log).read()
d=f'/verif/seeded/{name}'
am={}
try: am=json.load(open(f'{d}/agent_meta.json'))
except Exception as e: am={'summary':'(agent meta missing)'}
def has(s): return s in t
rc=re.search(r'CHECK \S+ exit=(\d+)',t)
rc=int(rc.group(1)) if rc else None
fail=[l for l in t.splitlines() if 'FAILED:' in l or 'VIOLATION' in l]
tests=re.search(r'tests with change: passed=(\d+) failed=(\d+)',t)
meta={"property":p,"round":7,
 "written_by":"independent sub-agent given the property record, summaries of the earlier changes to avoid, and a scratch worktree; asked for a change that needs something specific to manifest (two cooperating sites / a multi-step history / an unusual legal input)",
 "summary":am.get('summary'),"needs_to_manifest":am.get('needs_to_manifest'),"kind":am.get('which_requirement_2_kind'),
 "confirmed":{"patch_applies_to_repo_head":has('patch applies to /repo HEAD: yes'),
   "baseline_tests_with_change":(f"passed={tests.group(1)} failed={tests.group(2)} (ui_tests fails at baseline)" if tests else None),
   "demo_with_change":("fails" if re.search(r'demo with change: exit [1-9]',t) else "PASSES"),
   "demo_without_change":("passes" if has('demo without change: exit 0') else "FAILS"),
   "how":"tools/verify_seed.sh: fresh worktree of /repo HEAD + patch.diff"},
 "checks_run":f"VERIF_REPO=<fresh worktree with the patch> ./check {p} quick (seed 0)",
 "check_exit":rc,"first_failure":(fail[0][:500] if fail else None),
 "caught_by":([p] if rc==1 else []),"missed_by":([] if rc==1 else [p])}
json.dump(meta,open(f'{d}/meta.json','w'),indent=1)
os.path.exists(f'{d}/agent_meta.json') and os.remove(f'{d}/agent_meta.json')
print(name,'exit',rc,meta['confirmed'])
PY
git -C /repo worktree remove --force $WT 2>/dev/null
