#!/bin/bash
# silence_run.sh <seed> [<seed> ...] — run every quick check on the unchanged tree under the given
# seeds from fresh processes; prints one line per (seed, property) and a summary. Any non-zero exit
# or VIOLATION line here is a defect of the machinery (or a new finding) and must be looked at.
cd "$(dirname "$0")/.."
./setup.sh >/dev/null 2>&1 || { echo "setup failed"; exit 2; }
BAD=0
for S in "$@"; do
  for P in C01 C02 C03 C04 C05 C06 C07 C08 C09 C10 C11 C12 C13 C14 C15 C16 C17 C18 C19 C20; do
    OUT=$(VERIF_SEED=$S ./check $P quick 2>&1); RC=$?
    LINE=$(echo "$OUT" | grep -E "^$P quick" | tail -1)
    echo "seed=$S $P exit=$RC $LINE"
    if [ $RC -ne 0 ] || echo "$OUT" | grep -q "^VIOLATION"; then BAD=$((BAD+1)); echo "$OUT" | grep -E "VIOLATION|FAILED|INFRA" | head -5; fi
  done
done
echo "SUMMARY bad=$BAD"
