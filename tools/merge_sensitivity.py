#!/usr/bin/env python3
"""merge_sensitivity.py <label>=<results.json> [...] — merge the results of several (partial)
sensitivity runs into sensitivity/results.json (an entry of a later argument replaces an earlier
one of the same name; entries not mentioned keep what they had) and rewrite sensitivity/REPORT.md.
The label (the /verif commit a run was made at) is stored per entry."""
import importlib.util
import json
import os
import sys

ROOT = os.path.dirname(os.path.dirname(os.path.abspath(__file__)))
spec = importlib.util.spec_from_file_location("sens", os.path.join(ROOT, "tools", "sensitivity.py"))
sens = importlib.util.module_from_spec(spec)
spec.loader.exec_module(sens)

# survivors that do not violate the statement they were written against (DESIGN.md 6.7)
NOTES = {
    "agent_mutants/C08_m3": "not a violation of C08 as stated: the documented JSON keys do not name the two members of a bitsequence object; the round trip holds",
    "agent_mutants/C09_m3": "not a violation as stated: only differs when two replace rules share one search key, on which the statement is silent",
    "agent_mutants/C18_m3": "same change as C09_m3",
    "agent_mutants/C17_m4": "not a violation as stated: only differs when .fields(..) is called twice on one variant, on which the statement is silent",
    "agent_mutants/C14_m2": "symmetric tag swap: a C06 violation (killed there), C14's clauses hold",
    "mutants/interner_resolve_off_by_one": "equivalent: Vec::get already answers None at len",
    "mutants/metatype_new_uses_own_type_id": "equivalent: only affects unsized T, whose identity is Self anyway",
    "seeded/C16e": "a C05 breaker (killed there); C16 as stated holds, see DESIGN.md 6.7",
}

path = os.path.join(ROOT, "sensitivity", "results.json")
cur = {r["name"]: r for r in json.load(open(path))} if os.path.exists(path) else {}
for arg in sys.argv[1:]:
    label, f = arg.split("=", 1)
    only = None
    if "@" in f:
        f, only = f.split("@", 1)
    for r in json.load(open(f)):
        if only and not any(o in r["name"] for o in only.split(",")):
            continue
        r["run_at"] = label
        old = cur.get(r["name"])
        if old is not None and r.get("tests_passed") == -1 and old.get("tests_passed", -1) != -1:
            # the run skipped the baseline tests: keep the earlier validation of the same patch
            for k in ("valid", "tests_passed", "tests_failed", "why"):
                if k in old:
                    r[k] = old[k]
            if not r["valid"]:
                r["checks"] = {}
        cur[r["name"]] = r
# drop entries whose patch is gone
keep = {}
for name, r in cur.items():
    kind, rest = name.split("/", 1)
    p = {"mutants": "sensitivity/mutants/%s.patch", "agent_mutants": "sensitivity/agent_mutants/%s.patch", "seeded": "seeded/%s/patch.diff"}[kind] % rest
    if os.path.exists(os.path.join(ROOT, p)):
        if name in NOTES:
            r["note"] = NOTES[name]
        keep[name] = r
res = sorted(keep.values(), key=lambda r: (["mutants", "agent_mutants", "seeded"].index(r["name"].split("/")[0]), r["name"]))
json.dump(res, open(path, "w"), indent=1)
sens.write_report(res)
rep = os.path.join(ROOT, "sensitivity", "REPORT.md")
lines = open(rep).read().rstrip("\n").split("\n")
lines += ["", "## Notes on changes that are not killed by the check of the property they were written against", ""]
for r in res:
    if r.get("note"):
        lines.append("* `%s`: %s" % (r["name"], r["note"]))
lines += ["", "## Which /verif commit each row was last run at", ""]
by = {}
for r in res:
    by.setdefault(r.get("run_at", "earlier run"), []).append(r["name"])
for k, v in by.items():
    lines.append("* %s: %d rows" % (k, len(v)))
open(rep, "w").write("\n".join(lines) + "\n")
print("merged", len(res))
