//! C14 — decoding untrusted bytes / JSON never panics, is memory-bounded and canonical.

use crate::alloc::measure;
use crate::genreg::*;
use crate::model::*;
use crate::p_reg::{hex, truncate};
use crate::refcodec::ref_enc_with_compacts;
use crate::refjson::to_json_ref;
use crate::runner::*;
use proptest::collection::vec;
use proptest::prelude::*;
use scale::{Decode, Encode};
use scale_info::PortableRegistry;
use serde::{Deserialize, Serialize};
use serde_json::{json, Value};

/// `scale::Input` over a slice that knows how much was consumed, also on failure
pub struct CountingInput<'a> {
    pub buf: &'a [u8],
    pub pos: usize,
}

impl<'a> scale::Input for CountingInput<'a> {
    fn remaining_len(&mut self) -> Result<Option<usize>, scale::Error> {
        Ok(Some(self.buf.len() - self.pos))
    }
    fn read(&mut self, into: &mut [u8]) -> Result<(), scale::Error> {
        if into.len() > self.buf.len() - self.pos {
            return Err("Not enough data to fill buffer".into());
        }
        into.copy_from_slice(&self.buf[self.pos..self.pos + into.len()]);
        self.pos += into.len();
        Ok(())
    }
}

// legitimate worst case without any input-proportional part: one in-progress vector per nesting level
// (types > variants > fields > docs), each pre-allocated by the codec in a 16 KiB chunk = 64 KiB
pub const ENVELOPE_BASE: usize = 128 * 1024;
pub const ENVELOPE_FACTOR: usize = 256;

pub struct DecodeOutcome {
    pub ok: bool,
    pub consumed: usize,
    pub peak: usize,
}

/// the complete SCALE half of the C14 oracle (shared with the fuzz target)
pub fn check_scale_decode(bytes: &[u8]) -> Result<DecodeOutcome, String> {
    let (res, peak, largest) = measure(|| {
        std::panic::catch_unwind(|| {
            let mut inp = CountingInput { buf: bytes, pos: 0 };
            let r = PortableRegistry::decode(&mut inp);
            (r, inp.pos)
        })
    });
    let (r, consumed) = match res {
        Ok(x) => x,
        Err(p) => return Err(format!("[sig:decode-panic] PortableRegistry::decode panicked: {}", panic_msg(&p))),
    };
    let bound = ENVELOPE_BASE + ENVELOPE_FACTOR * bytes.len();
    if peak > bound {
        return Err(format!(
            "[sig:decode-memory] decode of {} input bytes had {} bytes live at peak (largest single request {}), envelope is {}",
            bytes.len(),
            peak,
            largest,
            bound
        ));
    }
    // the slice entry point must agree with the counting input
    let mut sl = bytes;
    let r2 = std::panic::catch_unwind(move || {
        let r = PortableRegistry::decode(&mut sl);
        (r, sl.len())
    })
    .map_err(|p| format!("[sig:decode-panic] decode from a slice panicked: {}", panic_msg(&p)))?;
    match (&r, &r2.0) {
        (Ok(a), Ok(b)) => {
            if a != b || bytes.len() - r2.1 != consumed {
                return Err("decoding the same bytes through two Input implementations gives different results".into());
            }
        }
        (Err(_), Err(_)) => {}
        _ => return Err("decoding the same bytes through two Input implementations disagrees on success".into()),
    }
    match r {
        Ok(reg) => {
            let re = reg.encode();
            if re != bytes[..consumed] {
                return Err(format!(
                    "[sig:non-canonical] decoded registry re-encodes to {} bytes, but {} bytes were consumed: consumed={} reencoded={}",
                    re.len(),
                    consumed,
                    truncate(&hex(&bytes[..consumed]), 200),
                    truncate(&hex(&re), 200)
                ));
            }
            let n = reg.types.len() as u64;
            let probes = [n, n + 1, u32::MAX as u64];
            for x in probes {
                if x > u32::MAX as u64 {
                    continue;
                }
                let reg_ref = &reg;
                let got = std::panic::catch_unwind(std::panic::AssertUnwindSafe(|| reg_ref.resolve(x as u32).is_some()))
                    .map_err(|p| format!("[sig:resolve-panic] resolve({x}) panicked on a decoded registry of {n} entries: {}", panic_msg(&p)))?;
                if got && x >= n {
                    return Err(format!("resolve({x}) answers Some on a decoded registry of {n} entries"));
                }
            }
            // every id mentioned in the decoded (possibly ill-formed) registry can be asked for
            let m = from_lib(&reg);
            for t in &m.types {
                for x in t.ty.refs().into_iter().chain(std::iter::once(t.id)) {
                    let reg_ref = &reg;
                    let got = std::panic::catch_unwind(std::panic::AssertUnwindSafe(|| reg_ref.resolve(x).is_some()))
                        .map_err(|p| format!("[sig:resolve-panic] resolve({x}) panicked: {}", panic_msg(&p)))?;
                    if got != ((x as u64) < n) {
                        return Err(format!("resolve({x}) is_some()={got} on a registry of {n} entries"));
                    }
                }
            }
            Ok(DecodeOutcome { ok: true, consumed, peak })
        }
        Err(_) => Ok(DecodeOutcome { ok: false, consumed, peak }),
    }
}

fn note_scale(o: &DecodeOutcome, bytes: &[u8], obs: &mut Obs) {
    if o.ok || o.consumed >= 4 {
        obs.nontrivial(bytes);
    }
    obs.class(if o.ok { "scale/decoded" } else if o.consumed >= 4 { "scale/rejected_deep" } else { "scale/rejected_shallow" });
}

// ---------------------------------------------------------------------------- arbitrary bytes

pub fn bytes_body(b: &Vec<u8>, obs: &mut Obs) -> Result<(), String> {
    let o = check_scale_decode(b)?;
    note_scale(&o, b, obs);
    if obs.want_sample() {
        obs.sample(json!({"bytes_hex": truncate(&hex(b), 160), "decoded": o.ok, "consumed": o.consumed, "peak_bytes": o.peak}));
    }
    Ok(())
}

fn arb_bytes() -> impl Strategy<Value = Vec<u8>> {
    prop_oneof![
        3 => vec(any::<u8>(), 0..64),
        1 => vec(any::<u8>(), 64..600),
        // a plausible length prefix followed by noise biased to small values (tags, option bytes)
        3 => (1u8..6, vec(prop_oneof![3 => 0u8..16, 1 => any::<u8>()], 0..120)).prop_map(|(n, mut v)| { v.insert(0, n << 2); v }),
        // huge length prefixes
        1 => (prop::sample::select(vec![vec![0xfeu8, 0xff, 0xff, 0xff], vec![0x03, 0xff, 0xff, 0xff, 0xff], vec![0x13, 0xff, 0xff, 0xff, 0xff, 0xff, 0xff, 0xff, 0xff], vec![0xfd, 0xff], vec![0xff; 17]]),
              vec(any::<u8>(), 0..40)).prop_map(|(mut p, v)| { p.extend(v); p }),
    ]
}

// ---------------------------------------------------------------------- faulted valid encodings

#[derive(Clone, Debug, Serialize, Deserialize)]
pub enum Fault {
    Flip(u16, u8),
    Insert(u16, u8),
    Delete(u16),
    Duplicate(u16, u8),
    Overwrite(u16, u8),
    /// replace the k-th compact integer of the encoding by a class maximum / non-canonical form
    CompactMax(u16, u8),
    /// replace an option/tag-like small byte
    Swap(u16, u16),
}

fn fault() -> impl Strategy<Value = Fault> {
    prop_oneof![
        2 => (any::<u16>(), 0u8..8).prop_map(|(a, b)| Fault::Flip(a, b)),
        2 => (any::<u16>(), any::<u8>()).prop_map(|(a, b)| Fault::Insert(a, b)),
        2 => any::<u16>().prop_map(Fault::Delete),
        1 => (any::<u16>(), 1u8..9).prop_map(|(a, b)| Fault::Duplicate(a, b)),
        2 => (any::<u16>(), prop_oneof![0u8..16, any::<u8>()]).prop_map(|(a, b)| Fault::Overwrite(a, b)),
        4 => (any::<u16>(), 0u8..9).prop_map(|(a, b)| Fault::CompactMax(a, b)),
        1 => (any::<u16>(), any::<u16>()).prop_map(|(a, b)| Fault::Swap(a, b)),
    ]
}

pub const COMPACT_FORMS: [&[u8]; 9] = [
    &[0xfc],                                                 // 63, largest one-byte
    &[0xfd, 0xff],                                           // 16383
    &[0xfe, 0xff, 0xff, 0xff],                               // 2^30-1
    &[0x03, 0xff, 0xff, 0xff, 0xff],                         // u32::MAX
    &[0x07, 0xff, 0xff, 0xff, 0xff, 0xff],                   // > u32
    &[0x13, 0xff, 0xff, 0xff, 0xff, 0xff, 0xff, 0xff, 0xff], // u64::MAX
    &[0x01, 0x00],                                           // non-canonical 0 in two bytes
    &[0x02, 0x00, 0x00, 0x00],                               // non-canonical 0 in four bytes
    &[0x03, 0x01, 0x00, 0x00, 0x00],                         // non-canonical 1 in big mode
];

fn apply_fault(bytes: &mut Vec<u8>, compacts: &mut Vec<(usize, usize)>, f: &Fault) {
    if bytes.is_empty() {
        return;
    }
    let n = bytes.len();
    match f {
        Fault::Flip(i, b) => bytes[pick(*i, n)] ^= 1 << (b % 8),
        Fault::Insert(i, b) => bytes.insert(pick(*i, n + 1), *b),
        Fault::Delete(i) => {
            bytes.remove(pick(*i, n));
        }
        Fault::Duplicate(i, l) => {
            let at = pick(*i, n);
            let end = (at + *l as usize).min(n);
            let chunk: Vec<u8> = bytes[at..end].to_vec();
            let tail = bytes.split_off(end);
            bytes.extend_from_slice(&chunk);
            bytes.extend_from_slice(&tail);
        }
        Fault::Overwrite(i, b) => bytes[pick(*i, n)] = *b,
        Fault::CompactMax(k, form) => {
            if compacts.is_empty() {
                return;
            }
            let (a, b) = compacts[pick(*k, compacts.len())];
            if b > bytes.len() || a > b {
                return;
            }
            let form = COMPACT_FORMS[*form as usize % COMPACT_FORMS.len()];
            bytes.splice(a..b, form.iter().copied());
            // spans after the edit are stale; drop them (at most one structural edit of this kind
            // keeps its meaning, later ones act on whatever bytes are there)
            compacts.retain(|(x, _)| *x < a);
            return;
        }
        Fault::Swap(i, j) => {
            let (a, b) = (pick(*i, n), pick(*j, n));
            bytes.swap(a, b)
        }
    }
    compacts.clear();
}

#[derive(Clone, Debug, Serialize, Deserialize)]
pub struct FaultCase {
    pub m: MReg,
    pub faults: Vec<Fault>,
}

pub fn fault_body(c: &FaultCase, obs: &mut Obs) -> Result<(), String> {
    let (enc, spans) = ref_enc_with_compacts(&c.m);
    // the untouched encoding decodes and is canonical
    let base = check_scale_decode(&enc)?;
    if !base.ok || base.consumed != enc.len() {
        return Err("a valid encoding was rejected or not consumed fully".into());
    }
    let mut extra = 0u64;
    // every truncation point
    for cut in 0..enc.len() {
        let o = check_scale_decode(&enc[..cut]).map_err(|e| format!("truncated to {cut} bytes: {e}"))?;
        if o.ok && o.consumed > cut {
            return Err("decode consumed more than the input".into());
        }
        extra += 1;
    }
    obs.class_n("fault/truncation", enc.len() as u64);
    // every single bit flip of small encodings
    if enc.len() <= 96 {
        let mut b = enc.clone();
        for i in 0..enc.len() {
            for bit in 0..8 {
                b[i] ^= 1 << bit;
                let o = check_scale_decode(&b).map_err(|e| format!("bit {bit} of byte {i} flipped: {e}"))?;
                if o.ok || o.consumed >= 4 {
                    obs.nontrivial(&b);
                }
                b[i] ^= 1 << bit;
                extra += 1;
            }
        }
        obs.class_n("fault/bitflip", 8 * enc.len() as u64);
        // every compact replaced by every class maximum / non-canonical form
        for (a, e) in &spans {
            for form in COMPACT_FORMS {
                let mut b = enc.clone();
                b.splice(*a..*e, form.iter().copied());
                let o = check_scale_decode(&b).map_err(|e2| format!("compact at {a}..{e} replaced by {}: {e2}", hex(form)))?;
                if o.ok || o.consumed >= 4 {
                    obs.nontrivial(&b);
                }
                extra += 1;
            }
        }
        obs.class_n("fault/compact_replaced", (spans.len() * COMPACT_FORMS.len()) as u64);
    }
    // the generated fault sequence
    let mut b = enc.clone();
    let mut sp = spans.clone();
    for f in &c.faults {
        apply_fault(&mut b, &mut sp, f);
        obs.class(match f {
            Fault::Flip(..) => "fault/seq_flip",
            Fault::Insert(..) => "fault/seq_insert",
            Fault::Delete(..) => "fault/seq_delete",
            Fault::Duplicate(..) => "fault/seq_duplicate",
            Fault::Overwrite(..) => "fault/seq_overwrite",
            Fault::CompactMax(..) => "fault/seq_compact",
            Fault::Swap(..) => "fault/seq_swap",
        });
    }
    let o = check_scale_decode(&b)?;
    note_scale(&o, &b, obs);
    obs.extra_evals(extra);
    if obs.want_sample() {
        obs.sample(json!({"valid_encoding_hex": truncate(&hex(&enc), 120), "faults": c.faults, "after_faults_hex": truncate(&hex(&b), 120), "decoded": o.ok, "consumed": o.consumed, "exhaustive_truncations": enc.len()}));
    }
    Ok(())
}

// ------------------------------------------------------------------------------------- JSON

pub struct JsonOutcome {
    pub ok: bool,
    pub syntactic: bool,
    pub peak: usize,
}

pub fn check_json_decode(text: &str) -> Result<JsonOutcome, String> {
    let (res, peak, largest) = measure(|| std::panic::catch_unwind(|| serde_json::from_str::<PortableRegistry>(text)));
    let r = res.map_err(|p| format!("[sig:json-panic] from_str::<PortableRegistry> panicked: {}", panic_msg(&p)))?;
    let bound = ENVELOPE_BASE + ENVELOPE_FACTOR * text.len();
    if peak > bound {
        return Err(format!(
            "[sig:json-memory] deserialising {} bytes of JSON had {} bytes live at peak (largest request {}), envelope {}",
            text.len(),
            peak,
            largest,
            bound
        ));
    }
    // through a Value as well
    let as_value = serde_json::from_str::<Value>(text).ok();
    let syntactic = as_value.is_some();
    if let Some(v) = as_value {
        let r2 = std::panic::catch_unwind(move || serde_json::from_value::<PortableRegistry>(v))
            .map_err(|p| format!("[sig:json-panic] from_value::<PortableRegistry> panicked: {}", panic_msg(&p)))?;
        match (&r, &r2) {
            (Ok(a), Ok(b)) if a != b => return Err("from_str and from_value read different registries from one document".into()),
            _ => {}
        }
    }
    match r {
        Ok(reg) => {
            let txt = serde_json::to_string(&reg).map_err(|e| format!("re-serialising an accepted registry failed: {e}"))?;
            let back: PortableRegistry = serde_json::from_str(&txt).map_err(|e| format!("re-reading a re-serialised registry failed: {e}"))?;
            if back != reg {
                return Err("an accepted JSON registry does not survive serialise + deserialise".into());
            }
            let n = reg.types.len() as u64;
            for x in [n, n + 1, u32::MAX as u64] {
                if x <= u32::MAX as u64 {
                    let reg_ref = &reg;
                    let got = std::panic::catch_unwind(std::panic::AssertUnwindSafe(|| reg_ref.resolve(x as u32).is_some()))
                        .map_err(|p| format!("[sig:resolve-panic] resolve({x}) panicked: {}", panic_msg(&p)))?;
                    if got && x >= n {
                        return Err(format!("resolve({x}) is Some on a registry of {n} entries"));
                    }
                }
            }
            // and its SCALE form is canonical too
            let enc = reg.encode();
            check_scale_decode(&enc)?;
            Ok(JsonOutcome { ok: true, syntactic, peak })
        }
        Err(_) => Ok(JsonOutcome { ok: false, syntactic, peak }),
    }
}

fn note_json(o: &JsonOutcome, text: &str, obs: &mut Obs) {
    if o.ok || o.syntactic {
        obs.nontrivial(text);
    }
    obs.class(if o.ok { "json/accepted" } else if o.syntactic { "json/rejected_structure" } else { "json/rejected_syntax" });
}

pub fn json_text_body(t: &String, obs: &mut Obs) -> Result<(), String> {
    let o = check_json_decode(t)?;
    note_json(&o, t, obs);
    if obs.want_sample() {
        obs.sample(json!({"json_text": truncate(t, 200), "accepted": o.ok, "peak_bytes": o.peak}));
    }
    Ok(())
}

fn json_tokens() -> impl Strategy<Value = String> {
    let tok = prop_oneof![
        6 => prop::sample::select(vec!["{", "}", "[", "]", ",", ":", "\"types\"", "\"id\"", "\"type\"", "\"def\"", "\"path\"", "\"params\"", "\"docs\"",
            "\"name\"", "\"typeName\"", "\"index\"", "\"fields\"", "\"variants\"", "\"len\"", "\"composite\"", "\"variant\"", "\"sequence\"", "\"array\"", "\"tuple\"",
            "\"primitive\"", "\"compact\"", "\"bitsequence\"", "\"bit_store_type\"", "\"bit_order_type\"", "\"u8\"", "\"bool\"", "null", "true", "0", "1", "-1", "4294967295", "4294967296", "1.5", "1e400", "\"\""]).prop_map(|s| s.to_string()),
        1 => any::<u32>().prop_map(|n| n.to_string()),
        1 => "\"[a-z]{0,4}\"",
    ];
    vec(tok, 0..40).prop_map(|v| v.join(""))
}

/// syntactically valid random JSON over the document vocabulary
fn json_tree() -> impl Strategy<Value = String> {
    let leaf = prop_oneof![
        3 => (0u32..6).prop_map(|n| json!(n)),
        1 => any::<u32>().prop_map(|n| json!(n)),
        1 => any::<i64>().prop_map(|n| json!(n)),
        1 => Just(Value::Null),
        1 => Just(json!(1.5)),
        1 => Just(json!(true)),
        2 => prop::sample::select(vec!["u8", "bool", "str", "char", "u256", "i256", "U8", "", "x"]).prop_map(|s| json!(s)),
    ];
    let key = prop::sample::select(vec![
        "types", "id", "type", "path", "params", "def", "docs", "name", "typeName", "index", "fields", "variants", "len", "composite", "variant", "sequence",
        "array", "tuple", "primitive", "compact", "bitsequence", "bit_store_type", "bit_order_type", "zzz",
    ]);
    leaf.prop_recursive(6, 48, 5, move |inner| {
        prop_oneof![
            2 => vec(inner.clone(), 0..4).prop_map(Value::Array),
            5 => vec((key.clone(), inner), 0..5).prop_map(|kv| Value::Object(kv.into_iter().map(|(k, v)| (k.to_string(), v)).collect())),
        ]
    })
    .prop_map(|v| v.to_string())
}

fn arb_json_text() -> impl Strategy<Value = String> {
    prop_oneof![
        2 => json_tokens(),
        6 => json_tree(),
        3 => json_tree().prop_map(|t| format!("{{\"types\":[{{\"id\":0,\"type\":{t}}}]}}")),
        3 => json_tree().prop_map(|t| format!("{{\"types\":[{{\"id\":0,\"type\":{{\"def\":{t}}}}}]}}")),
        1 => vec(any::<char>(), 0..40).prop_map(|v| v.into_iter().collect::<String>()),
        1 => (1usize..400).prop_map(|n| "[".repeat(n)),
        1 => (1usize..300).prop_map(|n| format!("{}{}", "{\"types\":".repeat(n), "}".repeat(n))),
        1 => (1usize..200).prop_map(|n| format!("{{\"types\":[{}]}}", vec!["{\"id\":0,\"type\":{\"def\":{\"tuple\":[]}}}"; n].join(","))),
    ]
}

/// structural JSON faults applied to a valid document
#[derive(Clone, Debug, Serialize, Deserialize)]
pub enum JFault {
    RemoveKey(Vec<u16>),
    RenameKey(Vec<u16>, u8),
    DuplicateKey(Vec<u16>, u8),
    Replace(Vec<u16>, u8),
    Wrap(Vec<u16>, u8),
}

fn jfault() -> impl Strategy<Value = JFault> {
    let path = vec(any::<u16>(), 0..7);
    prop_oneof![
        2 => path.clone().prop_map(JFault::RemoveKey),
        2 => (path.clone(), any::<u8>()).prop_map(|(p, k)| JFault::RenameKey(p, k)),
        2 => (path.clone(), any::<u8>()).prop_map(|(p, k)| JFault::DuplicateKey(p, k)),
        4 => (path.clone(), any::<u8>()).prop_map(|(p, k)| JFault::Replace(p, k)),
        1 => (path, any::<u8>()).prop_map(|(p, k)| JFault::Wrap(p, k)),
    ]
}

const REPLACEMENTS: [&str; 16] = [
    "null", "-1", "4294967296", "1.5", "1e400", "\"str\"", "[]", "{}", "true", "18446744073709551616", "0", "256", "\"u8\"", "[0]", "{\"type\":0}", "-0",
];
const KEYS: [&str; 14] = [
    "zzz", "Types", "ID", "type", "typename", "type_name", "Composite", "bitSequence", "params", "def", "docs", "name", "index", "len",
];

/// navigate to a node by a path of picks; returns the serialised document with the fault applied.
/// Implemented on the text writer so that duplicate keys (impossible in a `Value`) can be emitted.
fn emit(v: &Value, path: &[u16], f: &JFault, out: &mut String) {
    let here = path.is_empty();
    let whole = here && matches!(f, JFault::Replace(..) | JFault::Wrap(..));
    match v {
        Value::Object(m) if !whole => {
            let keys: Vec<&String> = m.keys().collect();
            let target = if keys.is_empty() { None } else { path.first().map(|p| pick(*p, keys.len())) };
            out.push('{');
            let mut first = true;
            for (i, k) in keys.iter().enumerate() {
                let val = &m[*k];
                let on_target = target == Some(i) && path.len() == 1;
                let mut key: String = (*k).clone();
                let mut skip = false;
                let mut dup: Option<String> = None;
                if on_target {
                    match f {
                        JFault::RemoveKey(_) => skip = true,
                        JFault::RenameKey(_, kk) => key = KEYS[*kk as usize % KEYS.len()].to_string(),
                        JFault::DuplicateKey(_, kk) => dup = Some(REPLACEMENTS[*kk as usize % REPLACEMENTS.len()].to_string()),
                        _ => {}
                    }
                }
                if skip {
                    continue;
                }
                if !first {
                    out.push(',');
                }
                first = false;
                out.push_str(&Value::String(key.clone()).to_string());
                out.push(':');
                if target == Some(i) {
                    emit(val, &path[1..], f, out);
                } else {
                    out.push_str(&val.to_string());
                }
                if let Some(d) = dup {
                    out.push(',');
                    out.push_str(&Value::String(key).to_string());
                    out.push(':');
                    out.push_str(&d);
                }
            }
            out.push('}');
            let _ = here;
        }
        Value::Array(a) if !here && !a.is_empty() => {
            let target = pick(path[0], a.len());
            out.push('[');
            for (i, x) in a.iter().enumerate() {
                if i > 0 {
                    out.push(',');
                }
                if i == target {
                    emit(x, &path[1..], f, out);
                } else {
                    out.push_str(&x.to_string());
                }
            }
            out.push(']');
        }
        other => match f {
            JFault::Replace(_, k) => out.push_str(REPLACEMENTS[*k as usize % REPLACEMENTS.len()]),
            JFault::Wrap(_, k) => {
                let n = 1 + (*k as usize % 200);
                out.push_str(&"[".repeat(n));
                out.push_str(&other.to_string());
                out.push_str(&"]".repeat(n));
            }
            _ => out.push_str(&other.to_string()),
        },
    }
}

#[derive(Clone, Debug, Serialize, Deserialize)]
pub struct JsonFaultCase {
    pub m: MReg,
    pub faults: Vec<JFault>,
}

pub fn json_fault_body(c: &JsonFaultCase, obs: &mut Obs) -> Result<(), String> {
    let doc = to_json_ref(&c.m);
    let base_txt = doc.to_string();
    let base = check_json_decode(&base_txt)?;
    if !base.ok {
        return Err(format!("a document of the documented shape was rejected: {}", truncate(&base_txt, 300)));
    }
    let mut txt = base_txt.clone();
    for f in &c.faults {
        // re-parse the current text when possible so that faults compose; a document that no
        // longer parses keeps its text
        if let Ok(v) = serde_json::from_str::<Value>(&txt) {
            let path = match f {
                JFault::RemoveKey(p) | JFault::RenameKey(p, _) | JFault::DuplicateKey(p, _) | JFault::Replace(p, _) | JFault::Wrap(p, _) => p.clone(),
            };
            let mut out = String::new();
            emit(&v, &path, f, &mut out);
            txt = out;
        }
        obs.class(match f {
            JFault::RemoveKey(..) => "jfault/remove_key",
            JFault::RenameKey(..) => "jfault/rename_key",
            JFault::DuplicateKey(..) => "jfault/duplicate_key",
            JFault::Replace(..) => "jfault/replace_value",
            JFault::Wrap(..) => "jfault/deep_nesting",
        });
    }
    let o = check_json_decode(&txt)?;
    note_json(&o, &txt, obs);
    if txt != base_txt {
        obs.class("jfault/document_changed");
    }
    if obs.want_sample() {
        obs.sample(json!({"valid_doc": truncate(&base_txt, 200), "faults": c.faults, "after_faults": truncate(&txt, 200), "accepted": o.ok}));
    }
    Ok(())
}

pub fn c14_subs() -> Vec<Box<dyn Sub>> {
    vec![
        Box::new(Check {
            name: "scale_arbitrary",
            quick: 100_000,
            thorough: 4_000_000,
            strat: Box::new(|| arb_bytes().boxed()),
            body: Box::new(bytes_body),
            guard_death: true,
            max_shrink: 4096,
        }),
        Box::new(Check {
            name: "scale_faulted",
            quick: 6_000,
            thorough: 200_000,
            strat: Box::new(|| (reg_wild(), vec(fault(), 0..4)).prop_map(|(m, faults)| FaultCase { m, faults }).boxed()),
            body: Box::new(fault_body),
            guard_death: true,
            max_shrink: 4096,
        }),
        Box::new(Check {
            name: "json_arbitrary",
            quick: 40_000,
            thorough: 1_000_000,
            strat: Box::new(|| arb_json_text().boxed()),
            body: Box::new(json_text_body),
            guard_death: true,
            max_shrink: 4096,
        }),
        Box::new(Check {
            name: "json_faulted",
            quick: 20_000,
            thorough: 600_000,
            strat: Box::new(|| (reg_wild(), vec(jfault(), 1..4)).prop_map(|(m, faults)| JsonFaultCase { m, faults }).boxed()),
            body: Box::new(json_fault_body),
            guard_death: true,
            max_shrink: 4096,
        }),
    ]
}
