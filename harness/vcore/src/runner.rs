//! Shared driver: seeded proptest runs on N threads, case statistics, shrinking, replay files,
//! known-finding handling and the evidence writer.

use proptest::strategy::{BoxedStrategy, Strategy};
use proptest::test_runner::{Config, RngAlgorithm, TestCaseError, TestError, TestRng, TestRunner};
use serde::{de::DeserializeOwned, Serialize};
use serde_json::{json, Value};
use std::cell::{Cell, RefCell};
use std::collections::{BTreeMap, HashSet};
use std::fmt::Debug;
use std::hash::{Hash, Hasher};
use std::path::{Path, PathBuf};
use std::time::Instant;

#[derive(Clone, Copy, PartialEq, Eq, Debug)]
pub enum Tier {
    Quick,
    Thorough,
}

impl Tier {
    pub fn name(self) -> &'static str {
        match self {
            Tier::Quick => "quick",
            Tier::Thorough => "thorough",
        }
    }
}

pub fn verif_root() -> PathBuf {
    std::env::var_os("VERIF_ROOT")
        .map(PathBuf::from)
        .unwrap_or_else(|| PathBuf::from("/verif"))
}

pub fn hash128<T: Hash + ?Sized>(t: &T) -> u128 {
    let mut h1 = std::collections::hash_map::DefaultHasher::new();
    t.hash(&mut h1);
    let a = h1.finish();
    let mut h2 = std::collections::hash_map::DefaultHasher::new();
    0x9e3779b97f4a7c15u64.hash(&mut h2);
    t.hash(&mut h2);
    a.hash(&mut h2);
    ((a as u128) << 64) | h2.finish() as u128
}

/// open known findings: (property, signature) pairs read from known_findings.txt
#[derive(Clone, Default, Debug)]
pub struct Known {
    pub open: Vec<(String, String, String)>, // property, sig, description
}

impl Known {
    pub fn load() -> Known {
        let p = verif_root().join("known_findings.txt");
        let mut k = Known::default();
        if let Ok(s) = std::fs::read_to_string(p) {
            for line in s.lines() {
                let line = line.trim();
                // open entries: "KNOWN-FINDING: property=C20 sig=<sig> <what fails>"
                if let Some(rest) = line.strip_prefix("KNOWN-FINDING:") {
                    let mut prop = None;
                    let mut sig = None;
                    for tok in rest.split_whitespace() {
                        if let Some(p) = tok.strip_prefix("property=") {
                            prop = Some(p.to_string())
                        }
                        if let Some(s) = tok.strip_prefix("sig=") {
                            sig = Some(s.to_string())
                        }
                    }
                    if let (Some(p), Some(s)) = (prop, sig) {
                        k.open.push((p, s, rest.trim().to_string()));
                    }
                }
                // "fixed: ..." entries suppress nothing and are ignored here
            }
        }
        k
    }
    pub fn is_open(&self, prop: &str, sig: &str) -> Option<&str> {
        self.open
            .iter()
            .find(|(p, s, _)| p == prop && s == sig)
            .map(|(_, _, d)| d.as_str())
    }
}

#[derive(Default, Debug)]
pub struct Stats {
    pub evaluations: u64,
    pub nontrivial: HashSet<u128>,
    pub classes: BTreeMap<String, u64>,
    pub samples: Vec<Value>,
    pub excluded_known: BTreeMap<String, u64>,
}

impl Stats {
    pub fn merge(&mut self, o: Stats) {
        self.evaluations += o.evaluations;
        self.nontrivial.extend(o.nontrivial);
        for (k, v) in o.classes {
            *self.classes.entry(k).or_default() += v;
        }
        for s in o.samples {
            if self.samples.len() < 8 {
                self.samples.push(s)
            }
        }
        for (k, v) in o.excluded_known {
            *self.excluded_known.entry(k).or_default() += v;
        }
    }
}

/// per-case observer handed to every check body
pub struct Obs<'a> {
    prop: &'a str,
    known: &'a Known,
    stats: &'a RefCell<Stats>,
    counting: bool,
    want_sample: bool,
}

impl<'a> Obs<'a> {
    pub fn class(&mut self, c: &str) {
        if self.counting {
            *self.stats.borrow_mut().classes.entry(c.to_string()).or_default() += 1;
        }
    }
    pub fn class_n(&mut self, c: &str, n: u64) {
        if self.counting && n > 0 {
            *self.stats.borrow_mut().classes.entry(c.to_string()).or_default() += n;
        }
    }
    /// record that this case is non-trivial by the property's rule; `h` identifies it
    pub fn nontrivial<T: Hash + ?Sized>(&mut self, h: &T) {
        if self.counting {
            self.stats.borrow_mut().nontrivial.insert(hash128(h));
        }
    }
    pub fn want_sample(&self) -> bool {
        self.counting && self.want_sample
    }
    pub fn sample(&mut self, v: Value) {
        if self.want_sample() {
            self.stats.borrow_mut().samples.push(v);
            self.want_sample = false;
        }
    }
    /// extra evaluations performed inside one case (e.g. several oracles on one input)
    pub fn extra_evals(&mut self, n: u64) {
        if self.counting {
            self.stats.borrow_mut().evaluations += n;
        }
    }
    /// A failure with a root-cause signature. If the signature is an open known finding the case
    /// is excluded (counted) and the search continues; otherwise it is a violation.
    pub fn fail_sig(&mut self, sig: &str, msg: String) -> Result<(), String> {
        if self.known.is_open(self.prop, sig).is_some() {
            if self.counting {
                *self
                    .stats
                    .borrow_mut()
                    .excluded_known
                    .entry(sig.to_string())
                    .or_default() += 1;
            }
            Ok(())
        } else {
            Err(format!("[sig:{sig}] {msg}"))
        }
    }
}

/// run `f` with an observer that records nothing (fuzz targets, replays)
pub fn with_sink_obs<R>(prop: &'static str, f: impl FnOnce(&mut Obs) -> R) -> R {
    thread_local! {
        static KNOWN: Known = Known::load();
    }
    KNOWN.with(|k| {
        let stats = RefCell::new(Stats::default());
        let mut obs = Obs { prop, known: k, stats: &stats, counting: false, want_sample: false };
        f(&mut obs)
    })
}

pub struct Failure {
    pub sub: String,
    pub reason: String,
    pub case: Value,
}

pub struct SubResult {
    pub stats: Stats,
    pub failure: Option<Failure>,
}

pub struct Ctx {
    pub prop: &'static str,
    pub tier: Tier,
    pub seed: u64,
    pub jobs: usize,
    pub known: Known,
}

pub trait Sub: Sync {
    fn name(&self) -> &'static str;
    fn run(&self, ctx: &Ctx) -> SubResult;
    fn replay(&self, ctx: &Ctx, case: &Value) -> Result<(), String>;
    /// true when a death of the worker process while running this sub is a property violation
    fn death_is_violation(&self) -> bool {
        false
    }
}

pub type CheckBody<V> = Box<dyn Fn(&V, &mut Obs) -> Result<(), String> + Sync + Send>;

/// A proptest-driven sub-check.
pub struct Check<V> {
    pub name: &'static str,
    pub quick: u64,
    pub thorough: u64,
    pub strat: Box<dyn Fn() -> BoxedStrategy<V> + Sync + Send>,
    pub body: CheckBody<V>,
    /// write every case to a side file before running it, so that a worker death can be attributed
    pub guard_death: bool,
    /// bound on proptest shrink iterations (each one re-runs the body; program cases recompile)
    pub max_shrink: u32,
}

fn seed_bytes(seed: u64, prop: &str, sub: &str, thread: usize) -> [u8; 32] {
    let mut out = [0u8; 32];
    let h = hash128(&(seed, prop, sub, thread as u64));
    let h2 = hash128(&(h, 0xabcdefu64));
    out[..16].copy_from_slice(&h.to_le_bytes());
    out[16..].copy_from_slice(&h2.to_le_bytes());
    out
}

pub fn side_dir() -> PathBuf {
    verif_root().join("harness/target/side")
}

impl<V> Check<V>
where
    V: Debug + Serialize + DeserializeOwned + 'static,
{
    fn run_thread(&self, ctx: &Ctx, thread: usize, cases: u64) -> (Stats, Option<(String, Value)>) {
        let stats = RefCell::new(Stats::default());
        let failed = Cell::new(false);
        let n_seen = Cell::new(0u64);
        let cfg = Config {
            cases: cases as u32,
            failure_persistence: None,
            max_shrink_iters: self.max_shrink,
            max_global_rejects: 65536,
            ..Config::default()
        };
        let rng = TestRng::from_seed(
            RngAlgorithm::ChaCha,
            &seed_bytes(ctx.seed, ctx.prop, self.name, thread),
        );
        let mut runner = TestRunner::new_with_rng(cfg, rng);
        let strat = (self.strat)();
        let side = if self.guard_death {
            let d = side_dir();
            let _ = std::fs::create_dir_all(&d);
            Some(d.join(format!("{}-{}-{}.json", ctx.prop, self.name, thread)))
        } else {
            None
        };
        let res = runner.run(&strat, |v| {
            let counting = !failed.get();
            if counting {
                stats.borrow_mut().evaluations += 1;
                n_seen.set(n_seen.get() + 1);
            }
            if let Some(p) = &side {
                let doc = json!({"property": ctx.prop, "sub": self.name, "case": serde_json::to_value(&v).unwrap_or(Value::Null)});
                let _ = std::fs::write(p, doc.to_string());
            }
            let mut obs = Obs {
                prop: ctx.prop,
                known: &ctx.known,
                stats: &stats,
                counting,
                want_sample: thread == 0 && {
                    let n = n_seen.get();
                    // a few samples spread over the run
                    n == 1 || n == 7 || n == 50 || n == 333 || n == 2000
                },
            };
            match (self.body)(&v, &mut obs) {
                Ok(()) => Ok(()),
                Err(e) if e.starts_with(GENERATOR_INVALID) => {
                    // the generated case is outside the property's domain (it is not valid Rust even
                    // without the library's derive): discard it, count it, keep the first for debugging
                    if counting {
                        let mut st = stats.borrow_mut();
                        let n = st.classes.entry("discarded/generator_invalid".to_string()).or_default();
                        *n += 1;
                        if *n == 1 {
                            let dir = verif_root().join("harness/target/infra");
                            let _ = std::fs::create_dir_all(&dir);
                            let _ = std::fs::write(dir.join(format!("{}-{}-discard-{}.json", ctx.prop, self.name, thread)), json!({"property": ctx.prop, "sub": self.name, "reason": e, "case": serde_json::to_value(&v).unwrap_or(Value::Null)}).to_string());
                        }
                    }
                    Ok(())
                }
                Err(e) => {
                    failed.set(true);
                    Err(TestCaseError::fail(e))
                }
            }
        });
        if let Some(p) = &side {
            let _ = std::fs::remove_file(p);
        }
        let fail = match res {
            Ok(()) => None,
            Err(TestError::Fail(reason, v)) => Some((
                reason.message().to_string(),
                serde_json::to_value(&v).unwrap_or(Value::Null),
            )),
            Err(TestError::Abort(reason)) => Some((
                format!("proptest aborted (generator problem): {}", reason.message()),
                Value::Null,
            )),
        };
        (stats.into_inner(), fail)
    }
}

impl<V> Sub for Check<V>
where
    V: Debug + Serialize + DeserializeOwned + 'static,
{
    fn name(&self) -> &'static str {
        self.name
    }
    fn death_is_violation(&self) -> bool {
        self.guard_death
    }
    fn run(&self, ctx: &Ctx) -> SubResult {
        let total = match ctx.tier {
            Tier::Quick => self.quick,
            Tier::Thorough => self.thorough,
        };
        let jobs = ctx.jobs.max(1).min(total.max(1) as usize);
        let per = (total + jobs as u64 - 1) / jobs as u64;
        let mut results: Vec<(Stats, Option<(String, Value)>)> = Vec::new();
        std::thread::scope(|s| {
            let hs: Vec<_> = (0..jobs)
                .map(|t| {
                    std::thread::Builder::new()
                        .stack_size(64 << 20)
                        .spawn_scoped(s, move || self.run_thread(ctx, t, per))
                        .unwrap()
                })
                .collect();
            for h in hs {
                results.push(h.join().expect("worker thread panicked outside a case"));
            }
        });
        let mut stats = Stats::default();
        let mut failure = None;
        for (st, f) in results {
            stats.merge(st);
            if failure.is_none() {
                if let Some((reason, case)) = f {
                    failure = Some(Failure {
                        sub: self.name.to_string(),
                        reason,
                        case,
                    });
                }
            }
        }
        // a generator that mostly misses the domain is an infrastructure problem, not a pass
        let discarded = stats.classes.get("discarded/generator_invalid").copied().unwrap_or(0);
        if failure.is_none() && discarded > 3 && discarded * 50 > stats.evaluations {
            failure = Some(Failure { sub: self.name.to_string(), reason: format!("harness: the generator produced {discarded} invalid cases out of {}", stats.evaluations), case: Value::Null });
        }
        SubResult { stats, failure }
    }
    fn replay(&self, ctx: &Ctx, case: &Value) -> Result<(), String> {
        let v: V = serde_json::from_value(case.clone())
            .map_err(|e| format!("replay file does not hold a case of sub {}: {e}", self.name))?;
        let stats = RefCell::new(Stats::default());
        let mut obs = Obs {
            prop: ctx.prop,
            known: &ctx.known,
            stats: &stats,
            counting: false,
            want_sample: false,
        };
        match std::panic::catch_unwind(std::panic::AssertUnwindSafe(|| (self.body)(&v, &mut obs))) {
            Ok(Err(e)) if e.starts_with(GENERATOR_INVALID) => Ok(()),
            Ok(r) => r,
            Err(p) => Err(format!("panic: {}", panic_msg(&p))),
        }
    }
}

/// prefix of a check body's error that means "this generated case is outside the domain"
pub const GENERATOR_INVALID: &str = "generator-invalid:";

pub fn panic_msg(p: &Box<dyn std::any::Any + Send>) -> String {
    if let Some(s) = p.downcast_ref::<&str>() {
        s.to_string()
    } else if let Some(s) = p.downcast_ref::<String>() {
        s.clone()
    } else {
        "non-string panic payload".into()
    }
}

/// Evidence accumulator for one property run.
pub struct Evidence {
    pub prop: &'static str,
    pub tier: Tier,
    pub seed: u64,
    pub rule: String,
    pub assumptions: Vec<String>,
    pub stats: Stats,
    pub per_sub: BTreeMap<String, Value>,
    pub extra: BTreeMap<String, Value>,
    pub violations: Vec<(String, PathBuf)>,
    pub known_lines: Vec<String>,
    pub start: Instant,
    pub exhaustive: bool,
    /// cases that are distinct and non-trivial by construction (exhaustive enumerations), counted
    pub extra_distinct: u64,
    pub infra: Vec<String>,
}

impl Evidence {
    pub fn new(ctx: &Ctx, rule: &str) -> Evidence {
        Evidence {
            prop: ctx.prop,
            tier: ctx.tier,
            seed: ctx.seed,
            rule: rule.to_string(),
            assumptions: vec![],
            stats: Stats::default(),
            per_sub: BTreeMap::new(),
            extra: BTreeMap::new(),
            violations: vec![],
            known_lines: vec![],
            start: Instant::now(),
            exhaustive: false,
            extra_distinct: 0,
            infra: vec![],
        }
    }

    pub fn absorb(&mut self, ctx: &Ctx, name: &str, r: SubResult) {
        self.per_sub.insert(
            name.to_string(),
            json!({
                "evaluations": r.stats.evaluations,
                "distinct_nontrivial": r.stats.nontrivial.len(),
                "classes": r.stats.classes,
                "excluded_known": r.stats.excluded_known,
            }),
        );
        if let Some(f) = r.failure {
            if f.reason.starts_with("harness") || f.reason.contains("proptest aborted") || f.reason.starts_with("anchor build failed") || f.reason.starts_with("rustc failed without") {
                eprintln!("  sub {} INFRASTRUCTURE: {}", f.sub, f.reason);
                // keep the case for debugging, outside the replay tier
                let dir = verif_root().join("harness/target/infra");
                let _ = std::fs::create_dir_all(&dir);
                let _ = std::fs::write(dir.join(format!("{}-{}.json", ctx.prop, f.sub)), json!({"property": ctx.prop, "sub": f.sub, "reason": f.reason, "case": f.case}).to_string());
                self.infra.push(f.reason);
            } else {
                let path = write_replay(ctx.prop, &f);
                eprintln!("  sub {} FAILED: {}", f.sub, f.reason);
                self.violations.push((f.reason, path));
            }
        }
        // prefix the class names with the sub name in the merged view
        let mut st = r.stats;
        st.classes = st
            .classes
            .into_iter()
            .map(|(k, v)| (format!("{name}/{k}"), v))
            .collect();
        self.stats.merge(st);
    }

    pub fn write(&self) -> std::io::Result<PathBuf> {
        let dir = std::env::var_os("VERIF_EVIDENCE_OUT").map(PathBuf::from).unwrap_or_else(|| verif_root().join("evidence"));
        std::fs::create_dir_all(&dir)?;
        // a second engine serving the same property writes a part file that the driver merges
        let p = dir.join(format!("{}{}.json", self.prop, std::env::var("VERIF_EVIDENCE_SUFFIX").unwrap_or_default()));
        let mut coverage = serde_json::Map::new();
        coverage.insert("evaluations".into(), json!(self.stats.evaluations));
        coverage.insert(
            "distinct_nontrivial".into(),
            json!(self.stats.nontrivial.len() as u64 + self.extra_distinct),
        );
        coverage.insert("rule".into(), json!(self.rule));
        coverage.insert("samples".into(), json!(self.stats.samples));
        coverage.insert("classes".into(), json!(self.stats.classes));
        coverage.insert("per_sub".into(), json!(self.per_sub));
        coverage.insert("excluded_known".into(), json!(self.stats.excluded_known));
        if self.exhaustive {
            coverage.insert("exhaustive".into(), json!(true));
        }
        for (k, v) in &self.extra {
            coverage.insert(k.clone(), v.clone());
        }
        let doc = json!({
            "property_id": self.prop,
            "tier": self.tier.name(),
            "seed": self.seed,
            "level": "exploration",
            "coverage": Value::Object(coverage),
            "assumptions": self.assumptions,
            "wall_s": self.start.elapsed().as_secs_f64(),
            "violations": self.violations.len(),
        });
        std::fs::write(&p, serde_json::to_string_pretty(&doc).unwrap())?;
        Ok(p)
    }
}

pub fn write_replay(prop: &str, f: &Failure) -> PathBuf {
    // sensitivity runs (VERIF_REPO set by the driver) write their replays elsewhere
    let dir = std::env::var_os("VERIF_REPLAY_OUT").map(PathBuf::from).unwrap_or_else(|| verif_root().join("replays")).join(prop);
    let _ = std::fs::create_dir_all(&dir);
    let doc = json!({"property": prop, "sub": f.sub, "reason": f.reason, "case": f.case});
    let h = hash128(&doc.to_string());
    let p = dir.join(format!("{}-{:016x}.json", f.sub, (h >> 64) as u64));
    let _ = std::fs::write(&p, serde_json::to_string_pretty(&doc).unwrap());
    p
}

pub fn read_replay(p: &Path) -> Result<(String, String, Value), String> {
    let s = std::fs::read_to_string(p).map_err(|e| format!("{}: {e}", p.display()))?;
    let v: Value = serde_json::from_str(&s).map_err(|e| format!("{}: {e}", p.display()))?;
    Ok((
        v["property"].as_str().unwrap_or("").to_string(),
        v["sub"].as_str().unwrap_or("").to_string(),
        v["case"].clone(),
    ))
}

/// monotone index mapping (shrinks towards 0): i in 0..=u16::MAX-ish to 0..len
pub fn pick(i: u16, len: usize) -> usize {
    if len == 0 {
        0
    } else {
        ((i as usize) * len) >> 16
    }
}

pub fn boxed<S: Strategy + 'static>(s: S) -> BoxedStrategy<S::Value> {
    s.boxed()
}
