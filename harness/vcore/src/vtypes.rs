//! T — the run-time programmable type family.
//!
//! `N<I>` (I < NN) are real Rust types whose `TypeInfo::type_info()` is computed from a
//! thread-local *graph specification* installed by the test case. `A<I>` are user-written aliases
//! (`Identity = N<I>`). A menu of *shapes* wraps nodes in real library constructors, so one
//! compiled binary explores arbitrary generated type graphs.
//!
//! Everything the oracles need is stated here independently of the library: `Ty` (a term for the
//! exact Rust type), `ident` (the harness's notion of type identity) and `desc` (what the portable
//! definition of each identity must be).

use scale_info::build::{FieldBuilder, Fields, FieldsBuilder, Variants};
use scale_info::form::MetaForm;
use scale_info::{build::field_state, MetaType, Path, Type, TypeInfo, TypeParameter};
use serde::{Deserialize, Serialize};
use std::borrow::Cow;
use std::cell::{Cell, RefCell};
use std::collections::{BTreeMap, VecDeque};
use std::marker::PhantomData;
use std::rc::Rc;
use std::sync::Arc;

pub const NN: usize = 16;

// ------------------------------------------------------------------------------ string pools

pub const NAMES: [&str; 10] = ["a", "b", "x", "value", "r#type", "_0", "next", "T", "Inner", "k9"];
pub const PATH_SEGS: [&str; 8] = ["m", "n", "deep", "Node", "Other", "r#mod", "List", "Tree"];
pub const TYPE_NAMES: [&str; 7] = ["T", "Box<Self>", "Vec<T>", "u8", "&'static str", "<T as Tr>::A", ""];
pub const DOCS: [&str; 6] = ["doc", "", " leading space", "two\nlines", "üñí", "`code`"];
pub const PARAM_NAMES: [&str; 5] = ["T", "U", "E", "K", "V"];

// --------------------------------------------------------------------------------- the spec

#[derive(Clone, Debug, PartialEq, Eq, Hash, Serialize, Deserialize)]
pub struct Target {
    pub shape: u8,
    pub j: u8,
    pub d: u8,
}

#[derive(Clone, Debug, PartialEq, Eq, Hash, Serialize, Deserialize)]
pub struct FieldSpec {
    pub name: u8,
    pub target: Target,
    pub type_name: Option<u8>,
    pub docs: Vec<u8>,
    pub compact: bool,
}

#[derive(Clone, Debug, PartialEq, Eq, Hash, Serialize, Deserialize)]
pub struct VariantSpec {
    pub name: u8,
    pub index: u8,
    /// 0 named, 1 unnamed, 2 unit
    pub fields_kind: u8,
    pub fields: Vec<FieldSpec>,
    pub docs: Vec<u8>,
}

#[derive(Clone, Debug, PartialEq, Eq, Hash, Serialize, Deserialize)]
pub struct NodeSpec {
    /// 0 named composite, 1 unnamed composite, 2 unit composite, 3 variant
    pub kind: u8,
    pub path: Vec<u8>,
    pub params: Vec<(u8, Option<Target>)>,
    pub fields: Vec<FieldSpec>,
    pub variants: Vec<VariantSpec>,
    pub docs: Vec<u8>,
}

#[derive(Clone, Debug, PartialEq, Eq, Hash, Serialize, Deserialize)]
pub struct GraphSpec {
    pub nodes: Vec<NodeSpec>,
}

thread_local! {
    static SPEC: RefCell<Arc<GraphSpec>> = RefCell::new(Arc::new(GraphSpec { nodes: vec![] }));
    static CALLS: RefCell<[u32; NN]> = const { RefCell::new([0; NN]) };
    static COUNTING: Cell<bool> = const { Cell::new(true) };
}

pub fn install(spec: Arc<GraphSpec>) {
    SPEC.with(|s| *s.borrow_mut() = spec);
    reset_calls();
}

pub fn reset_calls() {
    CALLS.with(|c| *c.borrow_mut() = [0; NN]);
}

pub fn calls() -> [u32; NN] {
    CALLS.with(|c| *c.borrow())
}

/// oracle-side evaluations of `type_info()` are not counted
pub fn without_counting<R>(f: impl FnOnce() -> R) -> R {
    let prev = COUNTING.with(|c| c.replace(false));
    let r = f();
    COUNTING.with(|c| c.set(prev));
    r
}

// ------------------------------------------------------------------------------- the family

#[derive(Clone, Debug, PartialEq, Eq, PartialOrd, Ord)]
pub struct N<const I: usize>;
#[derive(Clone, Debug, PartialEq, Eq, PartialOrd, Ord)]
pub struct A<const I: usize>;

impl<const I: usize> TypeInfo for N<I> {
    type Identity = Self;
    fn type_info() -> Type {
        if COUNTING.with(|c| c.get()) {
            CALLS.with(|c| c.borrow_mut()[I] += 1);
        }
        let spec = SPEC.with(|s| s.borrow().clone());
        build_type(&spec.nodes[I])
    }
}

/// a user-written alias, as the trait documents: same identity, forwards the definition
impl<const I: usize> TypeInfo for A<I> {
    type Identity = N<I>;
    fn type_info() -> Type {
        <N<I> as TypeInfo>::type_info()
    }
}

// ------------------------------------------------------------------------------ shape menu

pub trait TyVisitor {
    type Out;
    fn visit<T: TypeInfo + ?Sized + 'static>(self) -> Self::Out;
}

pub const N_SHAPES: u8 = 72;
const DELTAS: [usize; 3] = [0, 1, 5];

fn with_shape_jk<const J: usize, const K: usize, V: TyVisitor>(shape: u8, v: V) -> V::Out {
    match shape {
        0 => v.visit::<N<J>>(),
        1 => v.visit::<Box<N<J>>>(),
        2 => v.visit::<Rc<N<J>>>(),
        3 => v.visit::<Arc<N<J>>>(),
        4 => v.visit::<&'static N<J>>(),
        5 => v.visit::<&'static mut N<J>>(),
        6 => v.visit::<Box<&'static Rc<N<J>>>>(),
        7 => v.visit::<A<J>>(),
        8 => v.visit::<Box<A<J>>>(),
        9 => v.visit::<Vec<N<J>>>(),
        10 => v.visit::<VecDeque<N<J>>>(),
        11 => v.visit::<[N<J>]>(),
        12 => v.visit::<Box<[N<J>]>>(),
        13 => v.visit::<Vec<Box<N<J>>>>(),
        14 => v.visit::<&'static Vec<N<J>>>(),
        15 => v.visit::<Option<N<J>>>(),
        16 => v.visit::<Option<Box<N<J>>>>(),
        17 => v.visit::<Result<N<J>, N<K>>>(),
        18 => v.visit::<[N<J>; 3]>(),
        19 => v.visit::<(N<J>, u8)>(),
        20 => v.visit::<(N<J>, PhantomData<N<K>>)>(),
        21 => v.visit::<BTreeMap<N<J>, N<K>>>(),
        22 => v.visit::<Cow<'static, [N<J>]>>(),
        23 => v.visit::<PhantomData<N<J>>>(),
        24 => v.visit::<Vec<Vec<N<J>>>>(),
        25 => v.visit::<Option<Vec<N<J>>>>(),
        26 => v.visit::<String>(),
        27 => v.visit::<str>(),
        28 => v.visit::<Box<str>>(),
        29 => v.visit::<Vec<u8>>(),
        30 => v.visit::<scale::Compact<u32>>(),
        31 => v.visit::<u8>(),
        32 => v.visit::<bool>(),
        33 => v.visit::<u32>(),
        34 => v.visit::<char>(),
        35 => v.visit::<PhantomData<u8>>(),
        36 => v.visit::<()>(),
        37 => v.visit::<Vec<String>>(),
        38 => v.visit::<Arc<Box<N<J>>>>(),
        39 => v.visit::<Rc<A<J>>>(),
        40 => v.visit::<(N<J>, N<K>, N<J>)>(),
        41 => v.visit::<[A<J>; 3]>(),
        42 => v.visit::<std::collections::BTreeSet<N<J>>>(),
        43 => v.visit::<Cow<'static, N<J>>>(),
        44..=48 => with_twin(shape, v),
        // array lengths beyond 16 bits (the elements are zero-sized, so the type costs nothing)
        49 => v.visit::<[N<J>; 65537]>(),
        50 => v.visit::<[A<J>; 4_000_000_000]>(),
        // more alias families and near-identical shapes
        51 => v.visit::<Cow<'static, str>>(),
        52 => v.visit::<Rc<str>>(),
        53 => v.visit::<VecDeque<u8>>(),
        54 => v.visit::<&'static [u8]>(),
        55 => v.visit::<Box<[u8]>>(),
        56 => v.visit::<Option<String>>(),
        57 => v.visit::<Option<&'static str>>(),
        58 => v.visit::<[N<J>; 4]>(),
        59 => v.visit::<(u8, N<J>)>(),
        // compact forms of family nodes and aliases (the Compact impl asks only for type info)
        60 => v.visit::<scale::Compact<N<J>>>(),
        61 => v.visit::<Option<scale::Compact<N<J>>>>(),
        62 => v.visit::<scale::Compact<A<J>>>(),
        63 => v.visit::<(scale::Compact<N<J>>, N<K>)>(),
        // the remaining built-in constructors: pairs of near-identical impls (Range / RangeInclusive,
        // BTreeSet / BinaryHeap) and non-generic wrappers of primitives
        64 => v.visit::<core::ops::Range<u32>>(),
        65 => v.visit::<core::ops::RangeInclusive<u32>>(),
        66 => v.visit::<core::ops::Range<N<J>>>(),
        67 => v.visit::<core::ops::RangeInclusive<N<J>>>(),
        68 => v.visit::<std::collections::BinaryHeap<N<J>>>(),
        69 => v.visit::<core::num::NonZeroU32>(),
        70 => v.visit::<core::num::NonZeroU8>(),
        71 => v.visit::<core::time::Duration>(),
        _ => v.visit::<u64>(),
    }
}

/// Two *distinct* types that share their fully qualified name (`...::with_twin::Twin`): items of
/// the same name declared in sibling blocks of one function. Anything keyed on a type's name
/// instead of its identity confuses them.
fn with_twin<V: TyVisitor>(shape: u8, v: V) -> V::Out {
    macro_rules! twin_impl {
        () => {
            #[derive(Clone)]
            #[allow(dead_code)]
            struct Twin;
            impl TypeInfo for Twin {
                type Identity = Self;
                fn type_info() -> Type {
                    Type::builder().path(Path::new("Twin", "twins")).composite(Fields::unit())
                }
            }
        };
    }
    if shape % 2 == 0 {
        twin_impl!();
        match shape {
            44 => v.visit::<Twin>(),
            46 => v.visit::<Option<Vec<Twin>>>(),
            _ => v.visit::<Box<Twin>>(),
        }
    } else {
        twin_impl!();
        match shape {
            45 => v.visit::<Twin>(),
            _ => v.visit::<Option<Vec<Twin>>>(),
        }
    }
}

macro_rules! dispatch_jd {
    ($shape:expr, $j:expr, $d:expr, $v:expr; $($jj:literal),*) => {
        match ($j as usize % NN, $d as usize % 3) {
            $(
                ($jj, 0) => with_shape_jk::<$jj, { ($jj + 0) % NN }, _>($shape, $v),
                ($jj, 1) => with_shape_jk::<$jj, { ($jj + 1) % NN }, _>($shape, $v),
                ($jj, 2) => with_shape_jk::<$jj, { ($jj + 5) % NN }, _>($shape, $v),
            )*
            _ => unreachable!(),
        }
    };
}

pub fn with_target<V: TyVisitor>(t: &Target, v: V) -> V::Out {
    dispatch_jd!(t.shape % N_SHAPES, t.j, t.d, v; 0, 1, 2, 3, 4, 5, 6, 7, 8, 9, 10, 11, 12, 13, 14, 15)
}

struct MetaV;
impl TyVisitor for MetaV {
    type Out = MetaType;
    fn visit<T: TypeInfo + ?Sized + 'static>(self) -> MetaType {
        MetaType::new::<T>()
    }
}

pub fn meta_of(t: &Target) -> MetaType {
    with_target(t, MetaV)
}

struct DeclV;
impl TyVisitor for DeclV {
    type Out = std::any::TypeId;
    fn visit<T: TypeInfo + ?Sized + 'static>(self) -> std::any::TypeId {
        std::any::TypeId::of::<T::Identity>()
    }
}

/// the identity a type *declares* (`<T as TypeInfo>::Identity`), computed without MetaType
pub fn declared_identity(t: &Target) -> std::any::TypeId {
    with_target(t, DeclV)
}

struct FieldV<Nm>(FieldBuilder<MetaForm, Nm, field_state::TypeNotAssigned>);
impl<Nm> TyVisitor for FieldV<Nm> {
    type Out = FieldBuilder<MetaForm, Nm, field_state::TypeAssigned>;
    fn visit<T: TypeInfo + ?Sized + 'static>(self) -> Self::Out {
        self.0.ty::<T>()
    }
}

// ------------------------------------------------------------------ exact types as terms (`Ty`)

#[derive(Clone, Debug, PartialEq, Eq, Hash, PartialOrd, Ord, Serialize, Deserialize)]
pub enum Ty {
    N(u8),
    A(u8),
    U8,
    Bool,
    U32,
    U64,
    Char,
    Str,
    String,
    Box(Box<Ty>),
    Rc(Box<Ty>),
    Arc(Box<Ty>),
    Ref(Box<Ty>),
    RefMut(Box<Ty>),
    Vec(Box<Ty>),
    VecDeque(Box<Ty>),
    Slice(Box<Ty>),
    Option(Box<Ty>),
    Result(Box<Ty>, Box<Ty>),
    Arr3(Box<Ty>),
    ArrN(u32, Box<Ty>),
    Tup(Vec<Ty>),
    Map(Box<Ty>, Box<Ty>),
    Set(Box<Ty>),
    Cow(Box<Ty>),
    Compact(Box<Ty>),
    Range(Box<Ty>),
    RangeIncl(Box<Ty>),
    Heap(Box<Ty>),
    NonZeroU32,
    NonZeroU8,
    Duration,
    Phantom(Box<Ty>),
    /// one of two distinct types sharing one fully qualified name
    Twin(u8),
}

fn b(t: Ty) -> Box<Ty> {
    Box::new(t)
}

/// the exact Rust type behind a menu entry (parallel to `with_shape_jk`)
pub fn ty_of(t: &Target) -> Ty {
    let j = t.j % NN as u8;
    let k = ((j as usize + DELTAS[t.d as usize % 3]) % NN) as u8;
    let x = || Ty::N(j);
    let y = || Ty::N(k);
    match t.shape % N_SHAPES {
        0 => x(),
        1 => Ty::Box(b(x())),
        2 => Ty::Rc(b(x())),
        3 => Ty::Arc(b(x())),
        4 => Ty::Ref(b(x())),
        5 => Ty::RefMut(b(x())),
        6 => Ty::Box(b(Ty::Ref(b(Ty::Rc(b(x())))))),
        7 => Ty::A(j),
        8 => Ty::Box(b(Ty::A(j))),
        9 => Ty::Vec(b(x())),
        10 => Ty::VecDeque(b(x())),
        11 => Ty::Slice(b(x())),
        12 => Ty::Box(b(Ty::Slice(b(x())))),
        13 => Ty::Vec(b(Ty::Box(b(x())))),
        14 => Ty::Ref(b(Ty::Vec(b(x())))),
        15 => Ty::Option(b(x())),
        16 => Ty::Option(b(Ty::Box(b(x())))),
        17 => Ty::Result(b(x()), b(y())),
        18 => Ty::Arr3(b(x())),
        19 => Ty::Tup(vec![x(), Ty::U8]),
        20 => Ty::Tup(vec![x(), Ty::Phantom(b(y()))]),
        21 => Ty::Map(b(x()), b(y())),
        22 => Ty::Cow(b(Ty::Slice(b(x())))),
        23 => Ty::Phantom(b(x())),
        24 => Ty::Vec(b(Ty::Vec(b(x())))),
        25 => Ty::Option(b(Ty::Vec(b(x())))),
        26 => Ty::String,
        27 => Ty::Str,
        28 => Ty::Box(b(Ty::Str)),
        29 => Ty::Vec(b(Ty::U8)),
        30 => Ty::Compact(b(Ty::U32)),
        31 => Ty::U8,
        32 => Ty::Bool,
        33 => Ty::U32,
        34 => Ty::Char,
        35 => Ty::Phantom(b(Ty::U8)),
        36 => Ty::Tup(vec![]),
        37 => Ty::Vec(b(Ty::String)),
        38 => Ty::Arc(b(Ty::Box(b(x())))),
        39 => Ty::Rc(b(Ty::A(j))),
        40 => Ty::Tup(vec![x(), y(), x()]),
        41 => Ty::Arr3(b(Ty::A(j))),
        42 => Ty::Set(b(x())),
        43 => Ty::Cow(b(x())),
        44 => Ty::Twin(0),
        45 => Ty::Twin(1),
        46 => Ty::Option(b(Ty::Vec(b(Ty::Twin(0))))),
        47 => Ty::Option(b(Ty::Vec(b(Ty::Twin(1))))),
        48 => Ty::Box(b(Ty::Twin(0))),
        49 => Ty::ArrN(65537, b(x())),
        50 => Ty::ArrN(4_000_000_000, b(Ty::A(j))),
        51 => Ty::Cow(b(Ty::Str)),
        52 => Ty::Rc(b(Ty::Str)),
        53 => Ty::VecDeque(b(Ty::U8)),
        54 => Ty::Ref(b(Ty::Slice(b(Ty::U8)))),
        55 => Ty::Box(b(Ty::Slice(b(Ty::U8)))),
        56 => Ty::Option(b(Ty::String)),
        57 => Ty::Option(b(Ty::Ref(b(Ty::Str)))),
        58 => Ty::ArrN(4, b(x())),
        59 => Ty::Tup(vec![Ty::U8, x()]),
        60 => Ty::Compact(b(x())),
        61 => Ty::Option(b(Ty::Compact(b(x())))),
        62 => Ty::Compact(b(Ty::A(j))),
        63 => Ty::Tup(vec![Ty::Compact(b(x())), y()]),
        64 => Ty::Range(b(Ty::U32)),
        65 => Ty::RangeIncl(b(Ty::U32)),
        66 => Ty::Range(b(x())),
        67 => Ty::RangeIncl(b(x())),
        68 => Ty::Heap(b(x())),
        69 => Ty::NonZeroU32,
        70 => Ty::NonZeroU8,
        71 => Ty::Duration,
        _ => Ty::U64,
    }
}

/// The harness's notion of type identity (C05/C16), stated from the property text:
/// Box/Rc/Arc/&/&mut of T and user aliases are T; Vec/VecDeque/slices of T are one sequence type
/// of T; String is str; every PhantomData is one type; everything else is itself, generic
/// arguments taken exactly.
#[derive(Clone, Debug, PartialEq, Eq, Hash, PartialOrd, Ord, Serialize, Deserialize)]
pub enum Ident {
    Seq(Ty),
    Str,
    Phantom,
    Exact(Ty),
}

pub fn ident(t: &Ty) -> Ident {
    match t {
        Ty::Box(x) | Ty::Rc(x) | Ty::Arc(x) | Ty::Ref(x) | Ty::RefMut(x) => ident(x),
        Ty::A(j) => Ident::Exact(Ty::N(*j)),
        Ty::Vec(x) | Ty::VecDeque(x) | Ty::Slice(x) => Ident::Seq((**x).clone()),
        Ty::String | Ty::Str => Ident::Str,
        Ty::Phantom(_) => Ident::Phantom,
        other => Ident::Exact(other.clone()),
    }
}

/// is this exact type a PhantomData (whose members the builders erase)?
pub fn is_phantom(t: &Ty) -> bool {
    matches!(ident(t), Ident::Phantom)
}

// ---------------------------------------------------------------- expected portable definitions

#[derive(Clone, Debug, PartialEq, Eq)]
pub struct DField {
    pub name: Option<String>,
    pub ty: Ty,
    pub type_name: Option<String>,
    pub docs: Vec<String>,
}

#[derive(Clone, Debug, PartialEq, Eq)]
pub struct DVariant {
    pub name: String,
    pub fields: Vec<DField>,
    pub index: u8,
    pub docs: Vec<String>,
}

#[derive(Clone, Debug, PartialEq, Eq)]
pub enum DDef {
    Composite(Vec<DField>),
    Variant(Vec<DVariant>),
    Sequence(Ty),
    Array(u32, Ty),
    Tuple(Vec<Ty>),
    Primitive(crate::model::MPrim),
    Compact(Ty),
}

#[derive(Clone, Debug, PartialEq, Eq)]
pub struct Desc {
    pub path: Vec<String>,
    pub params: Vec<(String, Option<Ty>)>,
    pub def: DDef,
    /// None = not asserted (PhantomData's own docs are feature dependent)
    pub docs: Option<Vec<String>>,
}

fn s(x: &str) -> String {
    x.to_string()
}

fn unnamed(ty: Ty) -> DField {
    DField { name: None, ty, type_name: None, docs: vec![] }
}

fn strs(idx: &[u8], pool: &[&str]) -> Vec<String> {
    idx.iter().map(|i| pool[*i as usize % pool.len()].to_string()).collect()
}

pub fn field_ty(f: &FieldSpec) -> Ty {
    if f.compact {
        Ty::Compact(b(Ty::U32))
    } else {
        ty_of(&f.target)
    }
}

fn dfields(fs: &[FieldSpec], named: bool) -> Vec<DField> {
    fs.iter()
        .filter(|f| !is_phantom(&field_ty(f)))
        .map(|f| DField {
            name: if named { Some(NAMES[f.name as usize % NAMES.len()].to_string()) } else { None },
            ty: field_ty(f),
            type_name: f.type_name.map(|t| TYPE_NAMES[t as usize % TYPE_NAMES.len()].to_string()),
            docs: strs(&f.docs, &DOCS),
        })
        .collect()
}

/// what the portable definition of each identity must be, stated by the harness
pub fn desc(id: &Ident, spec: &GraphSpec) -> Desc {
    use crate::model::MPrim;
    let plain = |def: DDef| Desc { path: vec![], params: vec![], def, docs: Some(vec![]) };
    match id {
        Ident::Seq(x) => plain(DDef::Sequence(x.clone())),
        Ident::Str => plain(DDef::Primitive(MPrim::Str)),
        Ident::Phantom => Desc { path: vec![s("PhantomData")], params: vec![], def: DDef::Composite(vec![]), docs: None },
        Ident::Exact(t) => match t {
            Ty::N(j) => {
                let n = &spec.nodes[*j as usize];
                let def = match n.kind % 4 {
                    0 => DDef::Composite(dfields(&n.fields, true)),
                    1 => DDef::Composite(dfields(&n.fields, false)),
                    2 => DDef::Composite(vec![]),
                    _ => DDef::Variant(
                        n.variants
                            .iter()
                            .map(|v| DVariant {
                                name: NAMES[v.name as usize % NAMES.len()].to_string(),
                                fields: match v.fields_kind % 3 {
                                    0 => dfields(&v.fields, true),
                                    1 => dfields(&v.fields, false),
                                    _ => vec![],
                                },
                                index: v.index,
                                docs: strs(&v.docs, &DOCS),
                            })
                            .collect(),
                    ),
                };
                Desc {
                    path: strs(&n.path, &PATH_SEGS),
                    params: n.params.iter().map(|(nm, t)| (PARAM_NAMES[*nm as usize % PARAM_NAMES.len()].to_string(), t.as_ref().map(ty_of))).collect(),
                    def,
                    docs: Some(strs(&n.docs, &DOCS)),
                }
            }
            Ty::U8 => plain(DDef::Primitive(MPrim::U8)),
            Ty::Bool => plain(DDef::Primitive(MPrim::Bool)),
            Ty::U32 => plain(DDef::Primitive(MPrim::U32)),
            Ty::U64 => plain(DDef::Primitive(MPrim::U64)),
            Ty::Char => plain(DDef::Primitive(MPrim::Char)),
            Ty::Option(x) => Desc {
                path: vec![s("Option")],
                params: vec![(s("T"), Some((**x).clone()))],
                def: DDef::Variant(vec![
                    DVariant { name: s("None"), fields: vec![], index: 0, docs: vec![] },
                    DVariant { name: s("Some"), fields: vec![unnamed((**x).clone())], index: 1, docs: vec![] },
                ]),
                docs: Some(vec![]),
            },
            Ty::Result(x, y) => Desc {
                path: vec![s("Result")],
                params: vec![(s("T"), Some((**x).clone())), (s("E"), Some((**y).clone()))],
                def: DDef::Variant(vec![
                    DVariant { name: s("Ok"), fields: vec![unnamed((**x).clone())], index: 0, docs: vec![] },
                    DVariant { name: s("Err"), fields: vec![unnamed((**y).clone())], index: 1, docs: vec![] },
                ]),
                docs: Some(vec![]),
            },
            Ty::Arr3(x) => plain(DDef::Array(3, (**x).clone())),
            Ty::ArrN(n, x) => plain(DDef::Array(*n, (**x).clone())),
            Ty::Tup(xs) => plain(DDef::Tuple(xs.iter().filter(|x| !is_phantom(x)).cloned().collect())),
            Ty::Map(k, v) => Desc {
                path: vec![s("BTreeMap")],
                params: vec![(s("K"), Some((**k).clone())), (s("V"), Some((**v).clone()))],
                def: DDef::Composite(vec![unnamed(Ty::Slice(b(Ty::Tup(vec![(**k).clone(), (**v).clone()]))))]),
                docs: Some(vec![]),
            },
            Ty::Set(x) => Desc {
                path: vec![s("BTreeSet")],
                params: vec![(s("T"), Some((**x).clone()))],
                def: DDef::Composite(vec![unnamed(Ty::Slice(x.clone()))]),
                docs: Some(vec![]),
            },
            Ty::Cow(x) => Desc {
                path: vec![s("Cow")],
                params: vec![(s("T"), Some((**x).clone()))],
                def: DDef::Composite(vec![unnamed((**x).clone())]),
                docs: Some(vec![]),
            },
            Ty::Compact(x) => plain(DDef::Compact((**x).clone())),
            Ty::Range(x) | Ty::RangeIncl(x) => Desc {
                path: vec![s(if matches!(t, Ty::Range(_)) { "Range" } else { "RangeInclusive" })],
                params: vec![(s("Idx"), Some((**x).clone()))],
                def: DDef::Composite(vec![
                    DField { name: Some(s("start")), ty: (**x).clone(), type_name: Some(s("Idx")), docs: vec![] },
                    DField { name: Some(s("end")), ty: (**x).clone(), type_name: Some(s("Idx")), docs: vec![] },
                ]),
                docs: Some(vec![]),
            },
            Ty::Heap(x) => Desc {
                path: vec![s("BinaryHeap")],
                params: vec![(s("T"), Some((**x).clone()))],
                def: DDef::Composite(vec![unnamed(Ty::Slice(x.clone()))]),
                docs: Some(vec![]),
            },
            Ty::NonZeroU32 => Desc { path: vec![s("NonZeroU32")], params: vec![], def: DDef::Composite(vec![unnamed(Ty::U32)]), docs: Some(vec![]) },
            Ty::NonZeroU8 => Desc { path: vec![s("NonZeroU8")], params: vec![], def: DDef::Composite(vec![unnamed(Ty::U8)]), docs: Some(vec![]) },
            Ty::Duration => Desc {
                path: vec![s("Duration")],
                params: vec![],
                def: DDef::Composite(vec![
                    DField { name: None, ty: Ty::U64, type_name: Some(s("u64")), docs: vec![] },
                    DField { name: None, ty: Ty::U32, type_name: Some(s("u32")), docs: vec![] },
                ]),
                docs: Some(vec![]),
            },
            Ty::Twin(_) => Desc { path: vec![s("twins"), s("Twin")], params: vec![], def: DDef::Composite(vec![]), docs: Some(vec![]) },
            other => panic!("harness: no description for exact type {other:?}"),
        },
    }
}

impl Desc {
    /// every referenced exact type, in declaration order (params first)
    pub fn refs(&self) -> Vec<Ty> {
        let mut out: Vec<Ty> = self.params.iter().filter_map(|(_, t)| t.clone()).collect();
        match &self.def {
            DDef::Composite(fs) => out.extend(fs.iter().map(|f| f.ty.clone())),
            DDef::Variant(vs) => {
                for v in vs {
                    out.extend(v.fields.iter().map(|f| f.ty.clone()))
                }
            }
            DDef::Sequence(t) | DDef::Compact(t) | DDef::Array(_, t) => out.push(t.clone()),
            DDef::Tuple(ts) => out.extend(ts.iter().cloned()),
            DDef::Primitive(_) => {}
        }
        out
    }
}

// ----------------------------------------------------------- building Type<MetaForm> from a spec

fn push_fields_named(mut fb: FieldsBuilder<MetaForm, scale_info::build::NamedFields>, fs: &[FieldSpec]) -> FieldsBuilder<MetaForm, scale_info::build::NamedFields> {
    for f in fs {
        fb = fb.field(|b| {
            let b = b.name(NAMES[f.name as usize % NAMES.len()]);
            let b = if f.compact { b.compact::<u32>() } else { with_target(&f.target, FieldV(b)) };
            let b = match f.type_name {
                Some(t) => b.type_name(TYPE_NAMES[t as usize % TYPE_NAMES.len()]),
                None => b,
            };
            b.docs_always(leak_docs(&f.docs))
        });
    }
    fb
}

fn push_fields_unnamed(mut fb: FieldsBuilder<MetaForm, scale_info::build::UnnamedFields>, fs: &[FieldSpec]) -> FieldsBuilder<MetaForm, scale_info::build::UnnamedFields> {
    for f in fs {
        fb = fb.field(|b| {
            // (setter orders are permuted in the generated builder programs of C17; here the type
            // comes first so that this crate compiles against any typestate signature)
            let b = if f.compact { b.compact::<u32>() } else { with_target(&f.target, FieldV(b)) };
            let b = match f.type_name {
                Some(t) => b.type_name(TYPE_NAMES[t as usize % TYPE_NAMES.len()]),
                None => b,
            };
            b.docs_always(leak_docs(&f.docs))
        });
    }
    fb
}

thread_local! {
    static DOC_SLICES: RefCell<std::collections::HashMap<Vec<u8>, &'static [&'static str]>> = RefCell::new(Default::default());
}

/// `docs_always` on fields wants `&'static [&'static str]`; one leak per distinct index list
fn leak_docs(idx: &[u8]) -> &'static [&'static str] {
    DOC_SLICES.with(|m| {
        let mut m = m.borrow_mut();
        if let Some(s) = m.get(idx) {
            return *s;
        }
        let v: Vec<&'static str> = idx.iter().map(|i| DOCS[*i as usize % DOCS.len()]).collect();
        let l: &'static [&'static str] = Box::leak(v.into_boxed_slice());
        m.insert(idx.to_vec(), l);
        l
    })
}

pub fn build_type(n: &NodeSpec) -> Type {
    let path = Path::from_segments(n.path.iter().map(|i| PATH_SEGS[*i as usize % PATH_SEGS.len()])).expect("spec paths are valid");
    let params: Vec<TypeParameter> = n
        .params
        .iter()
        .map(|(nm, t)| TypeParameter::new(PARAM_NAMES[*nm as usize % PARAM_NAMES.len()], t.as_ref().map(meta_of)))
        .collect();
    let tb = Type::builder().path(path).type_params(params).docs_always(leak_docs(&n.docs));
    match n.kind % 4 {
        0 => tb.composite(push_fields_named(Fields::named(), &n.fields)),
        1 => tb.composite(push_fields_unnamed(Fields::unnamed(), &n.fields)),
        2 => tb.composite(Fields::unit()),
        _ => {
            let mut vs = Variants::new();
            for v in &n.variants {
                vs = vs.variant(NAMES[v.name as usize % NAMES.len()], |vb| {
                    let vb = vb.index(v.index);
                    let vb = match v.fields_kind % 3 {
                        0 => vb.fields(push_fields_named(Fields::named(), &v.fields)),
                        1 => vb.fields(push_fields_unnamed(Fields::unnamed(), &v.fields)),
                        _ => vb.fields(Fields::unit()),
                    };
                    vb.docs_always(leak_docs(&v.docs))
                });
            }
            tb.variant(vs)
        }
    }
}

// ------------------------------------------------------------------------------- generators

pub mod gen {
    use super::*;
    use proptest::collection::vec;
    use proptest::prelude::*;

    pub fn target() -> BoxedStrategy<Target> {
        (
            prop_oneof![
                // nodes and transparent wrappers are the interesting bulk
                6 => 0u8..9,
                4 => 9u8..26,
                2 => 26u8..38,
                2 => 38u8..44,
                1 => 44u8..49,
                1 => 49u8..51,
                2 => 51u8..N_SHAPES,
            ],
            0u8..NN as u8,
            0u8..3,
        )
            .prop_map(|(shape, j, d)| Target { shape, j, d })
            .boxed()
    }

    fn docs_idx() -> impl Strategy<Value = Vec<u8>> {
        prop_oneof![3 => Just(vec![]), 2 => vec(0u8..6, 1..3)]
    }

    pub fn field() -> impl Strategy<Value = FieldSpec> {
        (0u8..10, target(), prop::option::of(0u8..7), docs_idx(), prop::bool::weighted(0.08))
            .prop_map(|(name, target, type_name, docs, compact)| FieldSpec { name, target, type_name, docs, compact })
    }

    pub fn node() -> impl Strategy<Value = NodeSpec> {
        let variant = (0u8..10, any::<u8>(), 0u8..3, vec(field(), 0..3), docs_idx())
            .prop_map(|(name, index, fields_kind, fields, docs)| VariantSpec { name, index, fields_kind, fields, docs });
        (
            0u8..4,
            // small pool of paths: distinct nodes with identical definitions do occur
            vec(0u8..8, 1..3),
            vec((0u8..5, prop::option::weighted(0.8, target())), 0..3),
            vec(field(), 0..4),
            vec(variant, 0..4),
            docs_idx(),
        )
            .prop_map(|(kind, path, params, fields, variants, docs)| NodeSpec { kind, path, params, fields, variants, docs })
    }

    pub fn graph() -> BoxedStrategy<GraphSpec> {
        vec(node(), NN..=NN).prop_map(|nodes| GraphSpec { nodes }).boxed()
    }
}
