//! M — a plain-data model of a portable registry, independent of the library's own derives.
//! `to_lib` goes through public constructors only, `from_lib` through public fields only.

use scale_info::{
    form::PortableForm, interner::UntrackedSymbol, Field, Path, PortableRegistry, PortableType,
    Type, TypeDef, TypeDefArray, TypeDefBitSequence, TypeDefCompact, TypeDefComposite,
    TypeDefPrimitive, TypeDefSequence, TypeDefTuple, TypeDefVariant, TypeParameter, Variant,
};
use serde::{Deserialize, Serialize};
use std::any::TypeId;

#[derive(Clone, Debug, PartialEq, Eq, Hash, PartialOrd, Ord, Serialize, Deserialize, Default)]
pub struct MReg {
    pub types: Vec<MPType>,
}

#[derive(Clone, Debug, PartialEq, Eq, Hash, PartialOrd, Ord, Serialize, Deserialize)]
pub struct MPType {
    pub id: u32,
    pub ty: MType,
}

#[derive(Clone, Debug, PartialEq, Eq, Hash, PartialOrd, Ord, Serialize, Deserialize)]
pub struct MType {
    pub path: Vec<String>,
    pub params: Vec<MParam>,
    pub def: MDef,
    pub docs: Vec<String>,
}

#[derive(Clone, Debug, PartialEq, Eq, Hash, PartialOrd, Ord, Serialize, Deserialize)]
pub struct MParam {
    pub name: String,
    pub ty: Option<u32>,
}

#[derive(Clone, Debug, PartialEq, Eq, Hash, PartialOrd, Ord, Serialize, Deserialize)]
pub enum MDef {
    Composite(Vec<MField>),
    Variant(Vec<MVariant>),
    Sequence(u32),
    Array { len: u32, ty: u32 },
    Tuple(Vec<u32>),
    Primitive(MPrim),
    Compact(u32),
    BitSequence { store: u32, order: u32 },
}

impl MDef {
    pub fn kind(&self) -> &'static str {
        match self {
            MDef::Composite(_) => "composite",
            MDef::Variant(_) => "variant",
            MDef::Sequence(_) => "sequence",
            MDef::Array { .. } => "array",
            MDef::Tuple(_) => "tuple",
            MDef::Primitive(_) => "primitive",
            MDef::Compact(_) => "compact",
            MDef::BitSequence { .. } => "bitsequence",
        }
    }
    pub fn tag(&self) -> u8 {
        match self {
            MDef::Composite(_) => 0,
            MDef::Variant(_) => 1,
            MDef::Sequence(_) => 2,
            MDef::Array { .. } => 3,
            MDef::Tuple(_) => 4,
            MDef::Primitive(_) => 5,
            MDef::Compact(_) => 6,
            MDef::BitSequence { .. } => 7,
        }
    }
}

#[derive(Clone, Debug, PartialEq, Eq, Hash, PartialOrd, Ord, Serialize, Deserialize)]
pub struct MField {
    pub name: Option<String>,
    pub ty: u32,
    pub type_name: Option<String>,
    pub docs: Vec<String>,
}

#[derive(Clone, Debug, PartialEq, Eq, Hash, PartialOrd, Ord, Serialize, Deserialize)]
pub struct MVariant {
    pub name: String,
    pub fields: Vec<MField>,
    pub index: u8,
    pub docs: Vec<String>,
}

#[derive(Clone, Copy, Debug, PartialEq, Eq, Hash, PartialOrd, Ord, Serialize, Deserialize)]
pub enum MPrim {
    Bool,
    Char,
    Str,
    U8,
    U16,
    U32,
    U64,
    U128,
    U256,
    I8,
    I16,
    I32,
    I64,
    I128,
    I256,
}

pub const ALL_PRIMS: [MPrim; 15] = [
    MPrim::Bool,
    MPrim::Char,
    MPrim::Str,
    MPrim::U8,
    MPrim::U16,
    MPrim::U32,
    MPrim::U64,
    MPrim::U128,
    MPrim::U256,
    MPrim::I8,
    MPrim::I16,
    MPrim::I32,
    MPrim::I64,
    MPrim::I128,
    MPrim::I256,
];

impl MPrim {
    /// wire tag as published: 0..14 = bool, char, str, u8..u128, u256, i8..i128, i256
    pub fn tag(self) -> u8 {
        ALL_PRIMS.iter().position(|p| *p == self).unwrap() as u8
    }
    pub fn from_tag(t: u8) -> Option<MPrim> {
        ALL_PRIMS.get(t as usize).copied()
    }
    /// JSON tag: lower-case name
    pub fn json(self) -> &'static str {
        [
            "bool", "char", "str", "u8", "u16", "u32", "u64", "u128", "u256", "i8", "i16", "i32",
            "i64", "i128", "i256",
        ][self.tag() as usize]
    }
}

type Sym = UntrackedSymbol<TypeId>;
fn sym(id: u32) -> Sym {
    Sym::from(id)
}

pub fn prim_to_lib(p: MPrim) -> TypeDefPrimitive {
    match p {
        MPrim::Bool => TypeDefPrimitive::Bool,
        MPrim::Char => TypeDefPrimitive::Char,
        MPrim::Str => TypeDefPrimitive::Str,
        MPrim::U8 => TypeDefPrimitive::U8,
        MPrim::U16 => TypeDefPrimitive::U16,
        MPrim::U32 => TypeDefPrimitive::U32,
        MPrim::U64 => TypeDefPrimitive::U64,
        MPrim::U128 => TypeDefPrimitive::U128,
        MPrim::U256 => TypeDefPrimitive::U256,
        MPrim::I8 => TypeDefPrimitive::I8,
        MPrim::I16 => TypeDefPrimitive::I16,
        MPrim::I32 => TypeDefPrimitive::I32,
        MPrim::I64 => TypeDefPrimitive::I64,
        MPrim::I128 => TypeDefPrimitive::I128,
        MPrim::I256 => TypeDefPrimitive::I256,
    }
}

pub fn prim_from_lib(p: &TypeDefPrimitive) -> MPrim {
    match p {
        TypeDefPrimitive::Bool => MPrim::Bool,
        TypeDefPrimitive::Char => MPrim::Char,
        TypeDefPrimitive::Str => MPrim::Str,
        TypeDefPrimitive::U8 => MPrim::U8,
        TypeDefPrimitive::U16 => MPrim::U16,
        TypeDefPrimitive::U32 => MPrim::U32,
        TypeDefPrimitive::U64 => MPrim::U64,
        TypeDefPrimitive::U128 => MPrim::U128,
        TypeDefPrimitive::U256 => MPrim::U256,
        TypeDefPrimitive::I8 => MPrim::I8,
        TypeDefPrimitive::I16 => MPrim::I16,
        TypeDefPrimitive::I32 => MPrim::I32,
        TypeDefPrimitive::I64 => MPrim::I64,
        TypeDefPrimitive::I128 => MPrim::I128,
        TypeDefPrimitive::I256 => MPrim::I256,
    }
}

fn field_to_lib(f: &MField) -> Field<PortableForm> {
    Field::new(
        f.name.clone(),
        sym(f.ty),
        f.type_name.clone(),
        f.docs.clone(),
    )
}

fn field_from_lib(f: &Field<PortableForm>) -> MField {
    MField {
        name: f.name.clone(),
        ty: f.ty.id,
        type_name: f.type_name.clone(),
        docs: f.docs.clone(),
    }
}

pub fn def_to_lib(d: &MDef) -> TypeDef<PortableForm> {
    match d {
        MDef::Composite(fs) => TypeDefComposite::new(fs.iter().map(field_to_lib)).into(),
        MDef::Variant(vs) => TypeDefVariant::new(vs.iter().map(|v| {
            Variant::new(
                v.name.clone(),
                v.fields.iter().map(field_to_lib).collect(),
                v.index,
                v.docs.clone(),
            )
        }))
        .into(),
        MDef::Sequence(t) => TypeDefSequence::new(sym(*t)).into(),
        MDef::Array { len, ty } => TypeDefArray::new(*len, sym(*ty)).into(),
        MDef::Tuple(ts) => TypeDefTuple::new_portable(ts.iter().map(|t| sym(*t))).into(),
        MDef::Primitive(p) => prim_to_lib(*p).into(),
        MDef::Compact(t) => TypeDefCompact::new(sym(*t)).into(),
        MDef::BitSequence { store, order } => {
            TypeDefBitSequence::new_portable(sym(*store), sym(*order)).into()
        }
    }
}

pub fn def_from_lib(d: &TypeDef<PortableForm>) -> MDef {
    match d {
        TypeDef::Composite(c) => MDef::Composite(c.fields.iter().map(field_from_lib).collect()),
        TypeDef::Variant(v) => MDef::Variant(
            v.variants
                .iter()
                .map(|v| MVariant {
                    name: v.name.clone(),
                    fields: v.fields.iter().map(field_from_lib).collect(),
                    index: v.index,
                    docs: v.docs.clone(),
                })
                .collect(),
        ),
        TypeDef::Sequence(s) => MDef::Sequence(s.type_param.id),
        TypeDef::Array(a) => MDef::Array {
            len: a.len,
            ty: a.type_param.id,
        },
        TypeDef::Tuple(t) => MDef::Tuple(t.fields.iter().map(|f| f.id).collect()),
        TypeDef::Primitive(p) => MDef::Primitive(prim_from_lib(p)),
        TypeDef::Compact(c) => MDef::Compact(c.type_param.id),
        TypeDef::BitSequence(b) => MDef::BitSequence {
            store: b.bit_store_type.id,
            order: b.bit_order_type.id,
        },
    }
}

pub fn type_to_lib(t: &MType) -> Type<PortableForm> {
    Type::new(
        Path::from_segments_unchecked(t.path.iter().cloned()),
        t.params
            .iter()
            .map(|p| TypeParameter::new_portable(p.name.clone(), p.ty.map(sym))),
        def_to_lib(&t.def),
        t.docs.clone(),
    )
}

pub fn type_from_lib(t: &Type<PortableForm>) -> MType {
    MType {
        path: t.path.segments.clone(),
        params: t
            .type_params
            .iter()
            .map(|p| MParam {
                name: p.name.clone(),
                ty: p.ty.map(|s| s.id),
            })
            .collect(),
        def: def_from_lib(&t.type_def),
        docs: t.docs.clone(),
    }
}

pub fn to_lib(m: &MReg) -> PortableRegistry {
    PortableRegistry {
        types: m
            .types
            .iter()
            .map(|t| PortableType::new(t.id, type_to_lib(&t.ty)))
            .collect(),
    }
}

pub fn from_lib(r: &PortableRegistry) -> MReg {
    MReg {
        types: r
            .types
            .iter()
            .map(|t| MPType {
                id: t.id,
                ty: type_from_lib(&t.ty),
            })
            .collect(),
    }
}

impl MType {
    /// every id referenced by this definition, in declaration order:
    /// params first, then the definition's own references
    pub fn refs(&self) -> Vec<u32> {
        let mut out = Vec::new();
        for p in &self.params {
            if let Some(t) = p.ty {
                out.push(t);
            }
        }
        match &self.def {
            MDef::Composite(fs) => out.extend(fs.iter().map(|f| f.ty)),
            MDef::Variant(vs) => {
                for v in vs {
                    out.extend(v.fields.iter().map(|f| f.ty))
                }
            }
            MDef::Sequence(t) | MDef::Compact(t) => out.push(*t),
            MDef::Array { ty, .. } => out.push(*ty),
            MDef::Tuple(ts) => out.extend(ts.iter().copied()),
            MDef::Primitive(_) => {}
            MDef::BitSequence { store, order } => {
                out.push(*store);
                out.push(*order)
            }
        }
        out
    }

    /// the same definition with every reference rewritten by `f`
    pub fn map_refs(&self, f: &mut dyn FnMut(u32) -> u32) -> MType {
        let mut t = self.clone();
        for p in &mut t.params {
            if let Some(x) = p.ty.as_mut() {
                *x = f(*x)
            }
        }
        match &mut t.def {
            MDef::Composite(fs) => fs.iter_mut().for_each(|fl| fl.ty = f(fl.ty)),
            MDef::Variant(vs) => {
                for v in vs {
                    v.fields.iter_mut().for_each(|fl| fl.ty = f(fl.ty))
                }
            }
            MDef::Sequence(t) | MDef::Compact(t) => *t = f(*t),
            MDef::Array { ty, .. } => *ty = f(*ty),
            MDef::Tuple(ts) => ts.iter_mut().for_each(|t| *t = f(*t)),
            MDef::Primitive(_) => {}
            MDef::BitSequence { store, order } => {
                *store = f(*store);
                *order = f(*order)
            }
        }
        t
    }
}

/// `wf(r)` of C01 on the model: id == index and every reference < n.
pub fn wf_model(m: &MReg) -> Result<(), String> {
    let n = m.types.len() as u64;
    for (i, t) in m.types.iter().enumerate() {
        if t.id as usize != i {
            return Err(format!("entry at position {i} carries id {}", t.id));
        }
        for r in t.ty.refs() {
            if (r as u64) >= n {
                return Err(format!("entry {i} references id {r} but registry has {n} entries"));
            }
        }
    }
    Ok(())
}

/// `wf(r)` of C01 on the library value: additionally `resolve` is positional and total.
pub fn wf_lib(r: &PortableRegistry) -> Result<(), String> {
    let m = from_lib(r);
    wf_model(&m)?;
    for (i, t) in r.types.iter().enumerate() {
        match r.resolve(i as u32) {
            Some(ty) if ty == &t.ty => {}
            Some(_) => return Err(format!("resolve({i}) is not the entry at position {i}")),
            None => return Err(format!("resolve({i}) is None for a present entry")),
        }
    }
    let n = r.types.len();
    if n <= u32::MAX as usize {
        if (n as u64) < u32::MAX as u64 && r.resolve(n as u32).is_some() {
            return Err(format!("resolve({n}) is Some on a registry of {n} entries"));
        }
    }
    if n < u32::MAX as usize && r.resolve(u32::MAX).is_some() {
        return Err("resolve(u32::MAX) is Some".into());
    }
    Ok(())
}
