//! shared command line: worker + supervisor.
//!   vrun <Cxx> <quick|thorough>           run a property (under the supervisor)
//!   vrun <Cxx> --replay <file>            re-execute one saved case
use std::path::{Path, PathBuf};
use std::process::Command;
use crate::runner::*;
use crate::props::PropDef;

fn usage() -> ! {
    eprintln!("usage: vrun <Cxx> <quick|thorough> | vrun <Cxx> --replay <file>");
    std::process::exit(2)
}

pub fn main_with(defs: Vec<PropDef>) -> ! {
    let args: Vec<String> = std::env::args().skip(1).collect();
    let worker = args.first().map(|a| a == "--worker").unwrap_or(false);
    let args: Vec<String> = if worker { args[1..].to_vec() } else { args };
    if args.first().map(|a| a == "gen-seeds").unwrap_or(false) {
        let dir = std::path::PathBuf::from(args.get(1).cloned().unwrap_or_else(|| "gen".into()));
        crate::fuzz_entry::write_seed_corpus(&dir).expect("write seeds");
        std::process::exit(0);
    }
    if args.len() < 2 {
        usage()
    }
    if !worker {
        finish(supervise(&args));
    }
    finish(work(&args, defs));
}

static EXIT_HOOK: std::sync::OnceLock<fn()> = std::sync::OnceLock::new();

/// register clean-up that must run before the process exits (the engines' scratch directories)
pub fn set_exit_hook(f: fn()) {
    let _ = EXIT_HOOK.set(f);
}

fn finish(code: i32) -> ! {
    if let Some(h) = EXIT_HOOK.get() {
        h();
    }
    std::process::exit(code)
}

fn seed() -> u64 {
    std::env::var("VERIF_SEED").ok().and_then(|s| s.trim().parse::<u64>().ok()).unwrap_or(0)
}

fn jobs() -> usize {
    std::env::var("VERIF_JOBS").ok().and_then(|s| s.parse().ok()).unwrap_or_else(|| std::thread::available_parallelism().map(|n| n.get()).unwrap_or(8).min(16))
}

fn supervise(args: &[String]) -> i32 {
    use std::os::unix::process::ExitStatusExt;
    let exe = std::env::current_exe().expect("current_exe");
    let prop = args[0].clone();
    // stale side files from an earlier crashed run must not be attributed to this one
    if let Ok(rd) = std::fs::read_dir(side_dir()) {
        for e in rd.flatten() {
            if e.file_name().to_string_lossy().starts_with(&format!("{prop}-")) {
                let _ = std::fs::remove_file(e.path());
            }
        }
    }
    let status = Command::new(&exe).arg("--worker").args(args).status().expect("spawn worker");
    if let Some(code) = status.code() {
        return code;
    }
    let sig = status.signal().unwrap_or(0);
    if args.get(1).map(|a| a == "--replay").unwrap_or(false) {
        // replaying one saved case: the worker dying on it is the violation itself
        println!("VIOLATION property={prop} replay={}", args.get(2).cloned().unwrap_or_default());
        eprintln!("  the worker dies (signal {sig}) on this case");
        return 1;
    }
    eprintln!("worker for {prop} died with signal {sig}; attributing through side files");
    // each side file holds the case a thread was about to run; re-run each alone, from a durable copy
    let rdir = std::env::var_os("VERIF_REPLAY_OUT").map(PathBuf::from).unwrap_or_else(|| verif_root().join("replays")).join(&prop);
    let _ = std::fs::create_dir_all(&rdir);
    if let Ok(rd) = std::fs::read_dir(side_dir()) {
        let mut files: Vec<PathBuf> = rd.flatten().map(|e| e.path()).filter(|p| p.file_name().map(|f| f.to_string_lossy().starts_with(&format!("{prop}-"))).unwrap_or(false)).collect();
        files.sort();
        for f in files {
            let dst = rdir.join(format!("death-{}", f.file_name().unwrap().to_string_lossy()));
            if std::fs::copy(&f, &dst).is_err() {
                continue;
            }
            let st = Command::new(&exe).arg("--worker").arg(&prop).arg("--replay").arg(&dst).stdout(std::process::Stdio::null()).status();
            match st {
                Ok(s) if s.code().is_none() => {
                    println!("VIOLATION property={prop} replay={}", dst.display());
                    eprintln!("  the worker dies (signal {:?}) on this case: the operation must not abort, overflow the stack or exhaust memory", s.signal());
                    return 1;
                }
                Ok(s) if s.code() == Some(1) => {
                    println!("VIOLATION property={prop} replay={}", dst.display());
                    return 1;
                }
                _ => {
                    let _ = std::fs::remove_file(&dst);
                }
            }
        }
    }
    eprintln!("INCONCLUSIVE: worker died with signal {sig} but no saved case reproduces it");
    2
}

fn work(args: &[String], defs: Vec<PropDef>) -> i32 {
    let prop_id = args[0].as_str();
    let Some(def) = defs.iter().find(|d| d.id == prop_id) else {
        eprintln!("unknown property {prop_id} for this engine");
        return 2;
    };
    // quiet panics: every panic inside a case is caught and reported by the check itself
    std::panic::set_hook(Box::new(|_| {}));
    let replay_path = if args[1] == "--replay" { args.get(2).map(PathBuf::from) } else { None };
    let tier = match args[1].as_str() {
        "quick" => Tier::Quick,
        "thorough" => Tier::Thorough,
        "--replay" => Tier::Quick,
        _ => usage(),
    };
    let ctx = Ctx { prop: def.id, tier, seed: seed(), jobs: jobs(), known: Known::load() };
    let subs = (def.subs)();

    let replay_one = |p: &Path| -> Result<(), String> {
        let (prop, sub, case) = read_replay(p)?;
        if prop != def.id {
            return Err(format!("replay file is for property {prop}"));
        }
        let s = subs.iter().find(|s| s.name() == sub).ok_or_else(|| format!("no sub-check {sub} in {prop}"));
        match s {
            Ok(s) => s.replay(&ctx, &case),
            Err(e) => {
                // exhaustive C18 cases replay through from_segments
                if sub == "exhaustive" {
                    let s = subs.iter().find(|s| s.name() == "from_segments").unwrap();
                    s.replay(&ctx, &case)
                } else {
                    Err(e)
                }
            }
        }
    };

    if let Some(p) = replay_path {
        return match replay_one(&p) {
            Ok(()) => {
                println!("replay {}: property holds on this case", p.display());
                0
            }
            Err(e) if e.starts_with("replay file") || e.starts_with("no sub-check") || e.contains("No such file") => {
                eprintln!("cannot replay: {e}");
                2
            }
            Err(e) => {
                println!("VIOLATION property={} replay={}", def.id, p.display());
                eprintln!("  {e}");
                1
            }
        };
    }

    let mut ev = Evidence::new(&ctx, def.rule);
    ev.assumptions = def.assumptions.iter().map(|s| s.to_string()).collect();
    // regression tier: every saved replay first
    let rdir = verif_root().join("replays").join(def.id);
    let mut replayed = 0u64;
    if let Ok(rd) = std::fs::read_dir(&rdir) {
        let mut files: Vec<PathBuf> = rd.flatten().map(|e| e.path()).filter(|p| p.extension().map(|e| e == "json").unwrap_or(false)).collect();
        files.sort();
        for f in files {
            replayed += 1;
            if let Err(e) = replay_one(&f) {
                eprintln!("  saved replay {} fails: {e}", f.display());
                ev.violations.push((e, f));
            }
        }
    }
    ev.extra.insert("replays_rerun".into(), serde_json::json!(replayed));
    for s in &subs {
        let t0 = std::time::Instant::now();
        let r = s.run(&ctx);
        eprintln!("  [{}] sub {}: {} evaluations, {} distinct non-trivial, {:.1}s{}", def.id, s.name(), r.stats.evaluations, r.stats.nontrivial.len(), t0.elapsed().as_secs_f64(), if r.failure.is_some() { " FAILED" } else { "" });
        ev.absorb(&ctx, s.name(), r);
    }
    let mut infra: Option<String> = ev.infra.first().cloned();
    if let Some(extra) = def.extra {
        if let Err(e) = extra(&ctx, &mut ev) {
            infra = Some(e);
        }
    }
    // known findings of this property
    for (p, sig, desc) in &ctx.known.open {
        if p == def.id {
            let n = ev.stats.excluded_known.get(sig).copied().unwrap_or(0);
            println!("KNOWN-FINDING: {desc} (excluded {n} generated cases in this run)");
        }
    }
    if let Err(e) = ev.write() {
        eprintln!("cannot write evidence: {e}");
        return 2;
    }
    println!("{} {} seed={} evaluations={} distinct_nontrivial={} violations={} wall={:.1}s", def.id, tier.name(), ctx.seed, ev.stats.evaluations, ev.stats.nontrivial.len() as u64 + ev.extra_distinct, ev.violations.len(), ev.start.elapsed().as_secs_f64());
    if !ev.violations.is_empty() {
        let mut seen = std::collections::BTreeSet::new();
        for (_, p) in &ev.violations {
            if seen.insert(p.clone()) {
                println!("VIOLATION property={} replay={}", def.id, p.display());
            }
        }
        return 1;
    }
    if let Some(e) = infra {
        eprintln!("INFRASTRUCTURE: {e}");
        return 2;
    }
    0
}
