//! C12 — PortableRegistryBuilder and Interner against a duplicate-free list model.

use crate::genreg;
use crate::model::*;
use crate::runner::*;
use proptest::collection::vec;
use proptest::prelude::*;
use scale_info::interner::Interner;
use scale_info::PortableRegistryBuilder;
use serde::{Deserialize, Serialize};
use serde_json::json;

#[derive(Clone, Debug, Serialize, Deserialize, Hash)]
pub enum IOp {
    Intern(u8),
    Get(u8),
    Resolve(u8),
    Elements,
}

fn iop(alpha: u8) -> impl Strategy<Value = IOp> {
    prop_oneof![
        6 => (0..alpha).prop_map(IOp::Intern),
        2 => (0..alpha).prop_map(IOp::Get),
        2 => (0..alpha).prop_map(IOp::Resolve),
        1 => Just(IOp::Elements),
    ]
}

const STR_ALPHA: [&str; 8] = ["", "a", "A", "a ", "aa", "b", "\u{0}", "é"];

/// generic interpreter: `val(i)` maps an alphabet index to a value
fn run_interner<T: Ord + Clone + std::fmt::Debug>(
    ops: &[IOp],
    alpha: u8,
    val: &dyn Fn(u8) -> T,
    obs: &mut Obs,
) -> Result<(), String> {
    // a "large" interner holding the whole alphabet: the source of symbols for resolve, including
    // symbols that are out of range for the interner under test
    let mut big: Interner<T> = Interner::new();
    for i in 0..alpha {
        let (ins, s) = big.intern_or_get(val(i));
        if !ins || s.into_untracked().id != i as u32 {
            return Err(format!("fresh interner: inserting distinct value #{i} gave inserted={ins}"));
        }
    }
    // both public constructors must give the same table (chosen by a function of the case)
    let mut it: Interner<T> = if ops.len() % 2 == 1 { Interner::default() } else { Interner::new() };
    obs.class(if ops.len() % 2 == 1 { "constructor/default" } else { "constructor/new" });
    let mut list: Vec<T> = Vec::new();
    let mut dup_after_other = false;
    for (step, op) in ops.iter().enumerate() {
        match op {
            IOp::Intern(i) => {
                let v = val(*i);
                let pos = list.iter().position(|x| *x == v);
                let (inserted, sym) = it.intern_or_get(v.clone());
                let id = sym.into_untracked().id;
                match pos {
                    Some(p) => {
                        if inserted || id as usize != p {
                            return Err(format!("step {step}: re-interning {v:?} gave (inserted={inserted}, id={id}), list model says (false, {p})"));
                        }
                        if list.len() >= 2 {
                            dup_after_other = true;
                        }
                    }
                    None => {
                        if !inserted || id as usize != list.len() {
                            return Err(format!("step {step}: interning new {v:?} gave (inserted={inserted}, id={id}), list model says (true, {})", list.len()));
                        }
                        list.push(v);
                    }
                }
            }
            IOp::Get(i) => {
                let v = val(*i);
                let pos = list.iter().position(|x| *x == v).map(|p| p as u32);
                let got = it.get(&v).map(|s| s.into_untracked().id);
                if got != pos {
                    return Err(format!("step {step}: get({v:?}) = {got:?}, list model says {pos:?}"));
                }
            }
            IOp::Resolve(i) => {
                // (the alphabet interner is the library too: every value of the alphabet was interned into it above)
                let sym = big.get(&val(*i)).ok_or_else(|| format!("step {step}: a second interner holding the whole alphabet answers get({:?}) = None for a value that was interned", val(*i)))?;
                let got = it.resolve(sym).cloned();
                let want = list.get(*i as usize).cloned();
                if got != want {
                    return Err(format!("step {step}: resolve(#{i}) = {got:?}, list model says {want:?}"));
                }
                if want.is_none() {
                    obs.class("resolve_out_of_range");
                }
            }
            IOp::Elements => {
                if it.elements() != &list[..] {
                    return Err(format!("step {step}: elements() = {:?}, list model says {:?}", it.elements(), list));
                }
            }
        }
    }
    if it.elements() != &list[..] {
        return Err(format!("final elements() = {:?}, list model says {:?}", it.elements(), list));
    }
    if dup_after_other {
        obs.nontrivial(&ops);
    }
    Ok(())
}

#[derive(Clone, Debug, Serialize, Deserialize)]
pub struct InternCase {
    pub kind: u8, // 0 = String, 1 = u8, 2 = (u8, bool)
    pub ops: Vec<IOp>,
}

pub fn intern_body(c: &InternCase, obs: &mut Obs) -> Result<(), String> {
    // alphabet size: 8 (dense duplicates), 24 or 48 (tables that grow past 16 / 32 entries)
    let alpha: u8 = [8u8, 24, 48][(c.kind / 3 % 3) as usize];
    let ops: Vec<IOp> = c
        .ops
        .iter()
        .map(|o| match o {
            IOp::Intern(i) => IOp::Intern(i % alpha),
            IOp::Get(i) => IOp::Get(i % alpha),
            IOp::Resolve(i) => IOp::Resolve(i % alpha),
            IOp::Elements => IOp::Elements,
        })
        .collect();
    let r = match c.kind % 3 {
        0 => run_interner::<String>(&ops, alpha, &|i| if i < 8 { STR_ALPHA[i as usize].to_string() } else { format!("s{i}") }, obs),
        1 => run_interner::<u8>(&ops, alpha, &|i| if i < 8 { [0u8, 1, 2, 127, 128, 254, 255, 3][i as usize] } else { 10 + i }, obs),
        _ => run_interner::<(u8, bool)>(&ops, alpha, &|i| (i / 2, i % 2 == 0), obs),
    };
    obs.class(&format!("interner_kind/{}", c.kind % 3));
    obs.class(&format!("alphabet/{alpha}"));
    if obs.want_sample() {
        obs.sample(json!({"interner_kind": c.kind % 3, "ops": c.ops}));
    }
    r
}

// ------------------------------------------------------------------------------- large tables

/// tables of several hundred distinct values (the small alphabets above stop at 48): n distinct
/// values in, then probes - every answer against the list model
#[derive(Clone, Debug, Serialize, Deserialize)]
pub struct LargeCase {
    pub n: u16,
    pub salt: u32,
    pub probes: Vec<u16>,
}

pub fn large_body(c: &LargeCase, obs: &mut Obs) -> Result<(), String> {
    let n = c.n.max(1) as u32;
    // distinct values in an order that is not sorted (a multiplicative permutation of 0..n)
    let val = |i: u32| -> u32 { (i.wrapping_mul(2_654_435_761).wrapping_add(c.salt)) ^ 0x5bd1_e995 };
    let mut it: Interner<u32> = if c.salt % 2 == 0 { Interner::new() } else { Interner::default() };
    let mut list: Vec<u32> = vec![];
    for i in 0..n {
        let v = val(i);
        if list.contains(&v) {
            continue;
        }
        let (ins, sym) = it.intern_or_get(v);
        if !ins || sym.into_untracked().id as usize != list.len() {
            return Err(format!("interner: inserting new value #{} returned inserted={ins}, index {}", list.len(), sym.into_untracked().id));
        }
        list.push(v);
    }
    let len = list.len() as u32;
    for p in &c.probes {
        let k = (*p as u32) % len;
        let v = list[k as usize];
        let (ins, sym) = it.intern_or_get(v);
        if ins || sym.into_untracked().id != k {
            return Err(format!("interner of {len} values: interning value #{k} again returned inserted={ins}, index {}", sym.into_untracked().id));
        }
        match it.get(&v) {
            Some(s) if s.into_untracked().id == k => {
                if it.resolve(s) != Some(&v) {
                    return Err(format!("interner of {len} values: resolve({k}) does not return value #{k}"));
                }
            }
            other => return Err(format!("interner of {len} values: get(value #{k}) = {:?}", other.map(|s| s.into_untracked().id))),
        }
        let absent = v ^ 0x8000_0001;
        if !list.contains(&absent) && it.get(&absent).is_some() {
            return Err(format!("interner of {len} values: get of a value that was never interned answers Some"));
        }
    }
    if it.elements() != &list[..] {
        return Err(format!("interner of {len} values: elements() differs from the values in insertion order"));
    }
    if it.elements().len() != list.len() {
        return Err("interner: wrong number of elements".into());
    }
    // the same through the registry builder: n distinct types
    let ty = |i: u32| MType { path: vec![format!("T{}", val(i) % 100_000), format!("U{i}")], params: vec![], def: MDef::Primitive(MPrim::U8), docs: vec![] };
    let mut b = if c.salt % 2 == 0 { PortableRegistryBuilder::default() } else { PortableRegistryBuilder::new() };
    for i in 0..len {
        let announced = b.next_type_id();
        let id = b.register_type(type_to_lib(&ty(i)));
        if id != i || announced != i {
            return Err(format!("builder: value #{i} was announced as {announced} and registered as {id}"));
        }
    }
    for p in &c.probes {
        let k = (*p as u32) % len;
        let id = b.register_type(type_to_lib(&ty(k)));
        if id != k {
            return Err(format!("builder of {len} values: registering value #{k} again returned {id}"));
        }
        if b.get(k).map(type_from_lib) != Some(ty(k)) {
            return Err(format!("builder of {len} values: get({k}) is not value #{k}"));
        }
        if b.get(len + k).is_some() {
            return Err(format!("builder of {len} values: get({}) answers Some", len + k));
        }
    }
    if b.next_type_id() != len {
        return Err(format!("builder of {len} values: next_type_id() = {}", b.next_type_id()));
    }
    let r = b.finish();
    if r.types.len() as u32 != len || r.types.iter().enumerate().any(|(i, t)| t.id != i as u32 || type_from_lib(&t.ty) != ty(i as u32)) {
        return Err(format!("builder of {len} values: finish() does not list the values at their indices"));
    }
    obs.class(if len > 256 { "table_size/over_256" } else { "table_size/up_to_256" });
    if !c.probes.is_empty() {
        obs.nontrivial(&(c.n, c.salt, &c.probes));
    }
    Ok(())
}

// ------------------------------------------------------------------------------------ builder

#[derive(Clone, Debug, Serialize, Deserialize, Hash)]
pub enum BOp {
    /// register pool type #i
    Register(u8),
    /// register a self-referential type built with next_type_id(): shape selector
    RegisterSelfRef(u8),
    /// register a generated type whose references are limited to ids already handed out
    RegisterGen(MType),
    NextTypeId,
    Get(u32),
    Finish,
}

fn pool() -> Vec<MType> {
    let t = |def: MDef, path: &[&str]| MType {
        path: path.iter().map(|s| s.to_string()).collect(),
        params: vec![],
        def,
        docs: vec![],
    };
    let f = |name: Option<&str>, ty: u32| MField {
        name: name.map(|s| s.to_string()),
        ty,
        type_name: None,
        docs: vec![],
    };
    vec![
        t(MDef::Primitive(MPrim::U8), &[]),
        t(MDef::Primitive(MPrim::Bool), &[]),
        t(MDef::Primitive(MPrim::U8), &["a"]),
        t(MDef::Sequence(0), &[]),
        t(MDef::Sequence(1), &[]),
        t(MDef::Compact(0), &[]),
        t(MDef::Tuple(vec![]), &[]),
        t(MDef::Tuple(vec![0, 1]), &[]),
        t(MDef::Composite(vec![f(Some("x"), 0)]), &["S"]),
        t(MDef::Composite(vec![f(None, 0)]), &["S"]),
        t(MDef::Composite(vec![]), &["S"]),
        t(MDef::Array { len: 3, ty: 0 }, &[]),
    ]
}

fn self_ref(shape: u8, next: u32) -> MType {
    let f = |name: Option<&str>, ty: u32| MField {
        name: name.map(|s| s.to_string()),
        ty,
        type_name: Some("Box<Self>".into()),
        docs: vec![],
    };
    let def = match shape % 4 {
        0 => MDef::Sequence(next),
        1 => MDef::Composite(vec![f(Some("next"), next)]),
        2 => MDef::Variant(vec![
            MVariant { name: "Nil".into(), fields: vec![], index: 0, docs: vec![] },
            MVariant { name: "Cons".into(), fields: vec![f(None, 0), f(None, next)], index: 1, docs: vec![] },
        ]),
        _ => MDef::Tuple(vec![next, next]),
    };
    MType {
        path: if shape % 4 == 0 { vec![] } else { vec!["R".into()] },
        params: if shape % 8 >= 4 { vec![MParam { name: "T".into(), ty: Some(next) }] } else { vec![] },
        def,
        docs: vec![],
    }
}

pub fn builder_body(ops: &Vec<BOp>, obs: &mut Obs) -> Result<(), String> {
    let pool = pool();
    let mut b = if ops.len() % 2 == 1 { PortableRegistryBuilder::default() } else { PortableRegistryBuilder::new() };
    obs.class(if ops.len() % 2 == 1 { "constructor/default" } else { "constructor/new" });
    let mut list: Vec<MType> = Vec::new();
    let mut dup_after_other = false;
    let mut register = |b: &mut PortableRegistryBuilder, list: &mut Vec<MType>, t: MType, step: usize, announced: Option<u32>| -> Result<bool, String> {
        let pos = list.iter().position(|x| *x == t);
        let id = b.register_type(type_to_lib(&t));
        match pos {
            Some(p) => {
                if id as usize != p {
                    return Err(format!("step {step}: registering an equal value returned {id}, its first index is {p}"));
                }
                Ok(true)
            }
            None => {
                if id as usize != list.len() {
                    return Err(format!("step {step}: registering a new value returned {id}, the next free index is {}", list.len()));
                }
                if let Some(a) = announced {
                    if a != id {
                        return Err(format!("step {step}: next_type_id announced {a} but the new value got {id}"));
                    }
                }
                list.push(t);
                Ok(false)
            }
        }
    };
    for (step, op) in ops.iter().enumerate() {
        match op {
            BOp::Register(i) => {
                let t = pool[*i as usize % pool.len()].clone();
                let announced = b.next_type_id();
                if register(&mut b, &mut list, t, step, Some(announced))? && list.len() >= 2 {
                    dup_after_other = true;
                }
            }
            BOp::RegisterSelfRef(shape) => {
                let next = b.next_type_id();
                if next as usize != list.len() {
                    return Err(format!("step {step}: next_type_id() = {next}, list model says {}", list.len()));
                }
                let t = self_ref(*shape, next);
                if register(&mut b, &mut list, t, step, Some(next))? && list.len() >= 2 {
                    dup_after_other = true;
                }
                obs.class("self_reference");
            }
            BOp::RegisterGen(t) => {
                // clamp references to ids already handed out or the announced next id
                let next = b.next_type_id();
                let t = t.map_refs(&mut |r| if next == 0 { 0 } else { r % (next + 1) });
                if register(&mut b, &mut list, t, step, Some(next))? && list.len() >= 2 {
                    dup_after_other = true;
                }
            }
            BOp::NextTypeId => {
                let n = b.next_type_id();
                if n as usize != list.len() {
                    return Err(format!("step {step}: next_type_id() = {n}, list model says {}", list.len()));
                }
            }
            BOp::Get(id) => {
                let got = b.get(*id).map(type_from_lib);
                let want = list.get(*id as usize).cloned();
                if got != want {
                    return Err(format!("step {step}: get({id}) = {got:?}, list model says {want:?}"));
                }
                obs.class(if want.is_some() { "get/hit" } else { "get/miss" });
            }
            BOp::Finish => {
                check_finish(&mut b, &list, step)?;
            }
        }
    }
    check_finish(&mut b, &list, ops.len())?;
    if dup_after_other {
        obs.nontrivial(ops);
    }
    if obs.want_sample() {
        obs.sample(json!({"builder_ops": ops.iter().take(12).collect::<Vec<_>>(), "n_ops": ops.len(), "final_len": list.len()}));
    }
    Ok(())
}

#[allow(clippy::needless_pass_by_ref_mut)]
fn check_finish(b: &mut PortableRegistryBuilder, list: &[MType], step: usize) -> Result<(), String> {
    let r = from_lib(&b.finish());
    if r.types.len() != list.len() {
        return Err(format!("step {step}: finish() lists {} values, list model has {}", r.types.len(), list.len()));
    }
    for (i, t) in r.types.iter().enumerate() {
        if t.id as usize != i || t.ty != list[i] {
            return Err(format!("step {step}: finish() entry {i} is (id {}, {:?}), list model says (id {i}, {:?})", t.id, t.ty, list[i]));
        }
    }
    Ok(())
}

fn bop() -> impl Strategy<Value = BOp> {
    prop_oneof![
        8 => (0u8..12).prop_map(BOp::Register),
        3 => (0u8..8).prop_map(BOp::RegisterSelfRef),
        2 => genreg::mtype((0u32..6).boxed()).prop_map(BOp::RegisterGen),
        2 => Just(BOp::NextTypeId),
        3 => prop_oneof![4 => 0u32..14, 1 => Just(u32::MAX), 1 => any::<u32>()].prop_map(BOp::Get),
        1 => Just(BOp::Finish),
    ]
}

pub fn c12_subs() -> Vec<Box<dyn Sub>> {
    vec![
        Box::new(Check {
            name: "interner",
            quick: 60_000,
            thorough: 2_000_000,
            strat: Box::new(|| (0u8..9, prop_oneof![3 => vec(iop(48), 0..60), 1 => vec(iop(48), 60..200)]).prop_map(|(kind, ops)| InternCase { kind, ops }).boxed()),
            body: Box::new(intern_body),
            guard_death: false,
            max_shrink: 4096,
        }),
        Box::new(Check {
            name: "large_tables",
            quick: 800,
            thorough: 40_000,
            strat: Box::new(|| (prop_oneof![1 => 1u16..257, 3 => 257u16..700], any::<u32>(), vec(any::<u16>(), 0..40)).prop_map(|(n, salt, probes)| LargeCase { n, salt, probes }).boxed()),
            body: Box::new(large_body),
            guard_death: false,
            max_shrink: 512,
        }),
        Box::new(Check {
            name: "builder",
            quick: 40_000,
            thorough: 1_000_000,
            strat: Box::new(|| vec(bop(), 0..60).boxed()),
            body: Box::new(builder_body),
            guard_death: false,
            max_shrink: 4096,
        }),
    ]
}
