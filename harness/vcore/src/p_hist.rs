//! C01, C02, C05, C11, C16 on the run-time programmable type family: registration histories.

use crate::model::*;
use crate::p_reg::check_retain;
use crate::runner::*;
use crate::vtypes::*;
use proptest::collection::vec;
use proptest::prelude::*;
use scale::{Decode, Encode};
use scale_info::{form::PortableForm, IntoPortable, MetaType, PortableRegistry, Registry, TypeDef};
use serde::{Deserialize, Serialize};
use serde_json::json;
use std::any::TypeId;
use std::collections::{BTreeMap, BTreeSet, HashMap};
use std::sync::Arc;

#[derive(Clone, Debug, Serialize, Deserialize, Hash, PartialEq, Eq)]
pub enum HOp {
    Register(Target),
    RegisterTypes(Vec<Target>),
    /// `map_into_portable` of the whole compile-time definition of node j (the node itself is not interned)
    MapType(u8),
    /// `map_into_portable` of the members of node j
    MapFields(u8),
    MapParams(u8),
    MapVariants(u8),
}

#[derive(Clone, Debug, Serialize, Deserialize)]
pub struct HCase {
    pub spec: GraphSpec,
    pub ops: Vec<HOp>,
    pub mask: Vec<bool>,
    pub perm: Vec<u16>,
}

pub type Snapshot = Vec<(u32, MType)>;

pub struct Trace {
    /// per op: the (exact type, id) pairs the op handed out
    pub roots: Vec<Vec<(Ty, u32)>>,
    /// per op: same, as MetaTypes (for the type_info-based oracle)
    pub meta_roots: Vec<Vec<(MetaType, u32)>>,
    pub snapshots: Vec<Snapshot>,
    pub calls: [u32; NN],
    pub final_reg: PortableRegistry,
}

fn snapshot(r: &Registry) -> Snapshot {
    r.types().map(|(k, v)| (k.id, type_from_lib(v))).collect()
}

fn dfield_matches(got: &MField, want: &DField) -> bool {
    got.name == want.name && got.type_name == want.type_name && got.docs == want.docs
}

/// compare one portable definition with the harness's description; returns the (child type, id) pairs
fn compare_desc(got: &MType, want: &Desc, what: &str) -> Result<Vec<(Ty, u32)>, String> {
    let mut kids = vec![];
    if got.path != want.path {
        return Err(format!("{what}: path {:?}, expected {:?}", got.path, want.path));
    }
    if got.params.len() != want.params.len() {
        return Err(format!("{what}: {} type parameters, expected {}", got.params.len(), want.params.len()));
    }
    for (g, (wn, wt)) in got.params.iter().zip(want.params.iter()) {
        if &g.name != wn {
            return Err(format!("{what}: parameter named {:?}, expected {:?}", g.name, wn));
        }
        match (g.ty, wt) {
            (None, None) => {}
            (Some(id), Some(t)) => kids.push((t.clone(), id)),
            _ => return Err(format!("{what}: parameter {wn} has type {:?}, expected {:?}", g.ty, wt)),
        }
    }
    if let Some(d) = &want.docs {
        if &got.docs != d {
            return Err(format!("{what}: docs {:?}, expected {:?}", got.docs, d));
        }
    }
    let mut fields = |gf: &[MField], wf: &[DField], what2: &str| -> Result<(), String> {
        if gf.len() != wf.len() {
            return Err(format!("{what}{what2}: {} members, expected {} ({:?} vs {:?})", gf.len(), wf.len(), gf, wf));
        }
        for (g, w) in gf.iter().zip(wf.iter()) {
            if !dfield_matches(g, w) {
                return Err(format!("{what}{what2}: member {:?}, expected {:?}", g, w));
            }
            kids.push((w.ty.clone(), g.ty));
        }
        Ok(())
    };
    match (&got.def, &want.def) {
        (MDef::Composite(g), DDef::Composite(w)) => fields(g, w, "")?,
        (MDef::Variant(g), DDef::Variant(w)) => {
            if g.len() != w.len() {
                return Err(format!("{what}: {} variants, expected {}", g.len(), w.len()));
            }
            for (gv, wv) in g.iter().zip(w.iter()) {
                if gv.name != wv.name || gv.index != wv.index || gv.docs != wv.docs {
                    return Err(format!("{what}: variant ({:?}, index {}, docs {:?}), expected ({:?}, index {}, docs {:?})", gv.name, gv.index, gv.docs, wv.name, wv.index, wv.docs));
                }
                fields(&gv.fields, &wv.fields, &format!(" variant {}", wv.name))?;
            }
        }
        (MDef::Sequence(g), DDef::Sequence(w)) => kids.push((w.clone(), *g)),
        (MDef::Compact(g), DDef::Compact(w)) => kids.push((w.clone(), *g)),
        (MDef::Array { len, ty }, DDef::Array(wl, w)) => {
            if len != wl {
                return Err(format!("{what}: array length {len}, expected {wl}"));
            }
            kids.push((w.clone(), *ty))
        }
        (MDef::Tuple(g), DDef::Tuple(w)) => {
            if g.len() != w.len() {
                return Err(format!("{what}: tuple of {}, expected {}", g.len(), w.len()));
            }
            for (gi, wi) in g.iter().zip(w.iter()) {
                kids.push((wi.clone(), *gi))
            }
        }
        (MDef::Primitive(g), DDef::Primitive(w)) => {
            if g != w {
                return Err(format!("{what}: primitive {:?}, expected {:?}", g, w));
            }
        }
        (g, w) => return Err(format!("{what}: definition kind {}, expected {:?}", g.kind(), w)),
    }
    Ok(kids)
}

pub struct WalkStats {
    pub idents: usize,
    pub phantom_as_member: bool,
}

/// Spec oracle: the registry restricted to what is reachable from `roots` is a faithful image of
/// the harness-side descriptions, and `identity <-> id` is a bijection.
pub fn walk_spec(reg: &Snapshot, roots: &[(Ty, u32)], spec: &GraphSpec) -> Result<(HashMap<Ident, u32>, WalkStats), String> {
    walk_spec_opt(reg, roots, spec, true)
}

/// `bijection = false` (C02): only faithfulness is judged; whether one identity may have two ids
/// or two identities one id is C05's question and is not asserted here.
pub fn walk_spec_opt(reg: &Snapshot, roots: &[(Ty, u32)], spec: &GraphSpec, bijection: bool) -> Result<(HashMap<Ident, u32>, WalkStats), String> {
    let by_id: HashMap<u32, &MType> = reg.iter().map(|(i, t)| (*i, t)).collect();
    let mut id_of: HashMap<Ident, u32> = HashMap::new();
    let mut ident_of: HashMap<u32, Ident> = HashMap::new();
    let mut queue: Vec<(Ty, u32)> = roots.to_vec();
    let mut visited: std::collections::HashSet<(Ident, u32)> = Default::default();
    while let Some((ty, id)) = queue.pop() {
        let idn = ident(&ty);
        if !visited.insert((idn.clone(), id)) {
            continue;
        }
        if bijection {
            match id_of.get(&idn) {
                Some(x) if *x == id => continue,
                Some(x) => return Err(format!("[sig:identity-split] one type identity {idn:?} has two ids {x} and {id}")),
                None => {}
            }
            if let Some(other) = ident_of.get(&id) {
                return Err(format!("[sig:identity-merge] distinct type identities {other:?} and {idn:?} share id {id}"));
            }
        }
        id_of.insert(idn.clone(), id);
        ident_of.insert(id, idn.clone());
        let entry = by_id.get(&id).ok_or_else(|| format!("[sig:dangling] id {id} (for {idn:?}) does not resolve in the registry"))?;
        let d = desc(&idn, spec);
        let kids = compare_desc(entry, &d, &format!("[sig:unfaithful] entry {id} for {idn:?}"))?;
        queue.extend(kids);
    }
    Ok((id_of.clone(), WalkStats { idents: id_of.len(), phantom_as_member: false }))
}

/// type_info oracle: coinductive comparison of `MetaType::type_info()` with the portable entry
pub fn sim(reg: &Snapshot, roots: &[(MetaType, u32)]) -> Result<usize, String> {
    sim_opt(reg, roots, true)
}

pub fn sim_opt(reg: &Snapshot, roots: &[(MetaType, u32)], bijection: bool) -> Result<usize, String> {
    let by_id: HashMap<u32, &MType> = reg.iter().map(|(i, t)| (*i, t)).collect();
    let mut id_of: HashMap<TypeId, u32> = HashMap::new();
    let mut tid_of: HashMap<u32, TypeId> = HashMap::new();
    let mut queue: Vec<(MetaType, u32)> = roots.to_vec();
    let mut visited: std::collections::HashSet<(TypeId, u32)> = Default::default();
    while let Some((m, id)) = queue.pop() {
        if !visited.insert((m.type_id(), id)) {
            continue;
        }
        if bijection {
            match id_of.get(&m.type_id()) {
                Some(x) if *x == id => continue,
                Some(x) => return Err(format!("[sig:identity-split] one TypeId has two ids {x} and {id}")),
                None => {}
            }
            if tid_of.contains_key(&id) {
                return Err(format!("[sig:identity-merge] two TypeIds share id {id}"));
            }
        }
        id_of.insert(m.type_id(), id);
        tid_of.insert(id, m.type_id());
        let got = *by_id.get(&id).ok_or_else(|| format!("[sig:dangling] id {id} does not resolve"))?;
        let want = without_counting(|| m.type_info());
        let w = format!("[sig:unfaithful] entry {id}");
        let segs: Vec<String> = want.path.segments.iter().map(|s| s.to_string()).collect();
        if got.path != segs {
            return Err(format!("{w}: path {:?} vs type_info {:?}", got.path, segs));
        }
        if got.docs != want.docs.iter().map(|s| s.to_string()).collect::<Vec<_>>() {
            return Err(format!("{w}: docs {:?} vs type_info {:?}", got.docs, want.docs));
        }
        if got.params.len() != want.type_params.len() {
            return Err(format!("{w}: parameter count"));
        }
        for (g, p) in got.params.iter().zip(want.type_params.iter()) {
            if g.name != p.name {
                return Err(format!("{w}: parameter name {:?} vs {:?}", g.name, p.name));
            }
            match (g.ty, p.ty) {
                (None, None) => {}
                (Some(i), Some(mt)) => queue.push((mt, i)),
                _ => return Err(format!("{w}: parameter {} Some/None mismatch", p.name)),
            }
        }
        let mut fields = |gf: &[MField], wf: &[scale_info::Field]| -> Result<(), String> {
            if gf.len() != wf.len() {
                return Err(format!("{w}: member count {} vs type_info {}", gf.len(), wf.len()));
            }
            for (g, f) in gf.iter().zip(wf.iter()) {
                if g.name.as_deref() != f.name || g.type_name.as_deref() != f.type_name || g.docs != f.docs.iter().map(|s| s.to_string()).collect::<Vec<_>>() {
                    return Err(format!("{w}: member {:?} vs type_info (name {:?}, type name {:?}, docs {:?})", g, f.name, f.type_name, f.docs));
                }
                queue.push((f.ty, g.ty));
            }
            Ok(())
        };
        match (&got.def, &want.type_def) {
            (MDef::Composite(g), TypeDef::Composite(c)) => fields(g, &c.fields)?,
            (MDef::Variant(g), TypeDef::Variant(v)) => {
                if g.len() != v.variants.len() {
                    return Err(format!("{w}: variant count"));
                }
                for (gv, wv) in g.iter().zip(v.variants.iter()) {
                    if gv.name != wv.name || gv.index != wv.index || gv.docs != wv.docs.iter().map(|s| s.to_string()).collect::<Vec<_>>() {
                        return Err(format!("{w}: variant {:?} vs type_info ({:?}, {}, {:?})", gv, wv.name, wv.index, wv.docs));
                    }
                    fields(&gv.fields, &wv.fields)?;
                }
            }
            (MDef::Sequence(g), TypeDef::Sequence(s)) => queue.push((s.type_param, *g)),
            (MDef::Compact(g), TypeDef::Compact(s)) => queue.push((s.type_param, *g)),
            (MDef::Array { len, ty }, TypeDef::Array(a)) => {
                if *len != a.len {
                    return Err(format!("{w}: array length {len} vs type_info {}", a.len));
                }
                queue.push((a.type_param, *ty))
            }
            (MDef::Tuple(g), TypeDef::Tuple(t)) => {
                if g.len() != t.fields.len() {
                    return Err(format!("{w}: tuple arity"));
                }
                for (gi, mt) in g.iter().zip(t.fields.iter()) {
                    queue.push((*mt, *gi))
                }
            }
            (MDef::Primitive(g), TypeDef::Primitive(p)) => {
                if *g != prim_from_lib(p) {
                    return Err(format!("{w}: primitive"));
                }
            }
            (MDef::BitSequence { store, order }, TypeDef::BitSequence(bs)) => {
                queue.push((bs.bit_store_type, *store));
                queue.push((bs.bit_order_type, *order));
            }
            (g, _) => return Err(format!("{w}: definition kind {} differs from type_info", g.kind())),
        }
    }
    Ok(id_of.len())
}

/// run the history in a fresh Registry on this thread
pub fn run_history(case: &HCase) -> Result<Trace, String> {
    let spec = Arc::new(case.spec.clone());
    install(spec.clone());
    let mut reg = if case.ops.len() % 2 == 1 { Registry::default() } else { Registry::new() };
    let mut tr = Trace { roots: vec![], meta_roots: vec![], snapshots: vec![], calls: [0; NN], final_reg: PortableRegistry { types: vec![] } };
    for op in &case.ops {
        let mut roots: Vec<(Ty, u32)> = vec![];
        let mut mroots: Vec<(MetaType, u32)> = vec![];
        match op {
            HOp::Register(t) => {
                let m = meta_of(t);
                let id = reg.register_type(&m).id;
                roots.push((ty_of(t), id));
                mroots.push((m, id));
            }
            HOp::RegisterTypes(ts) => {
                let ms: Vec<MetaType> = ts.iter().map(meta_of).collect();
                let ids = reg.register_types(ms.clone());
                if ids.len() != ts.len() {
                    return Err("register_types returned a different number of ids".into());
                }
                for ((t, m), id) in ts.iter().zip(ms).zip(ids) {
                    roots.push((ty_of(t), id.id));
                    mroots.push((m, id.id));
                }
            }
            HOp::MapType(j) | HOp::MapFields(j) | HOp::MapParams(j) | HOp::MapVariants(j) => {
                let j = *j % NN as u8;
                let node_ident = Ident::Exact(Ty::N(j));
                let d = desc(&node_ident, &spec);
                let ti = without_counting(|| meta_of(&Target { shape: 0, j, d: 0 }).type_info());
                let got: MType = match op {
                    HOp::MapType(_) => {
                        let v = reg.map_into_portable([ti.clone()]);
                        if v.len() != 1 {
                            return Err("map_into_portable changed the number of items".into());
                        }
                        type_from_lib(&v[0])
                    }
                    HOp::MapParams(_) => {
                        let v = reg.map_into_portable(ti.type_params.clone());
                        MType { path: d.path.clone(), params: v.iter().map(|p| MParam { name: p.name.clone(), ty: p.ty.map(|s| s.id) }).collect(), def: MDef::Tuple(vec![]), docs: vec![] }
                    }
                    HOp::MapFields(_) => match &ti.type_def {
                        TypeDef::Composite(c) => {
                            let v: Vec<scale_info::Field<PortableForm>> = reg.map_into_portable(c.fields.clone());
                            let lib = scale_info::Type::<PortableForm>::new(scale_info::Path::from_segments_unchecked(d.path.clone()), vec![], scale_info::TypeDefComposite::new(v), vec![]);
                            type_from_lib(&lib)
                        }
                        _ => {
                            tr.roots.push(vec![]);
                            tr.meta_roots.push(vec![]);
                            tr.snapshots.push(snapshot(&reg));
                            continue;
                        }
                    },
                    _ => match &ti.type_def {
                        TypeDef::Variant(vs) => {
                            let v: Vec<scale_info::Variant<PortableForm>> = reg.map_into_portable(vs.variants.clone());
                            let lib = scale_info::Type::<PortableForm>::new(scale_info::Path::from_segments_unchecked(d.path.clone()), vec![], scale_info::TypeDefVariant::new(v), vec![]);
                            type_from_lib(&lib)
                        }
                        _ => {
                            tr.roots.push(vec![]);
                            tr.meta_roots.push(vec![]);
                            tr.snapshots.push(snapshot(&reg));
                            continue;
                        }
                    },
                };
                // compare the returned portable items with the description; their ids are roots
                let mut want = d.clone();
                match op {
                    HOp::MapParams(_) => {
                        want.def = DDef::Tuple(vec![]);
                        want.docs = Some(vec![]);
                    }
                    HOp::MapFields(_) | HOp::MapVariants(_) => {
                        want.params = vec![];
                        want.docs = Some(vec![]);
                    }
                    _ => {}
                }
                let kids = compare_desc(&got, &want, &format!("[sig:unfaithful] map_into_portable of node {j}"))?;
                roots.extend(kids);
                // MetaType side of the same items
                let mut mk: Vec<MetaType> = vec![];
                match op {
                    HOp::MapType(_) | HOp::MapParams(_) => mk.extend(ti.type_params.iter().filter_map(|p| p.ty)),
                    _ => {}
                }
                match (op, &ti.type_def) {
                    (HOp::MapType(_) | HOp::MapFields(_), TypeDef::Composite(c)) => mk.extend(c.fields.iter().map(|f| f.ty)),
                    (HOp::MapType(_) | HOp::MapVariants(_), TypeDef::Variant(v)) => mk.extend(v.variants.iter().flat_map(|v| v.fields.iter().map(|f| f.ty))),
                    _ => {}
                }
                if mk.len() == roots.len() {
                    for (m, (_, id)) in mk.into_iter().zip(roots.iter()) {
                        mroots.push((m, *id));
                    }
                } else {
                    return Err(format!("harness bug: meta roots {} vs spec roots {}", mk.len(), roots.len()));
                }
            }
        }
        tr.roots.push(roots);
        tr.meta_roots.push(mroots);
        tr.snapshots.push(snapshot(&reg));
    }
    tr.calls = calls();
    tr.final_reg = PortableRegistry::from(reg);
    Ok(tr)
}

fn snapshot_wf(s: &Snapshot, step: usize) -> Result<(), String> {
    let n = s.len() as u32;
    for (pos, (id, t)) in s.iter().enumerate() {
        if *id as usize != pos {
            return Err(format!("after op {step}: Registry::types() position {pos} has key {id}"));
        }
        for r in t.refs() {
            if r >= n {
                return Err(format!("after op {step}: entry {id} references {r} but only {n} entries exist"));
            }
        }
    }
    Ok(())
}

fn hist_classes(case: &HCase, tr: &Trace, obs: &mut Obs) {
    let n = tr.final_reg.types.len();
    obs.class(match n {
        0 => "entries/0",
        1..=3 => "entries/1-3",
        4..=15 => "entries/4-15",
        _ => "entries/16+",
    });
    let m = from_lib(&tr.final_reg);
    // cycles: any entry that can reach itself
    let mut cyclic = false;
    for t in &m.types {
        let mut seen = BTreeSet::new();
        let mut q = t.ty.refs();
        while let Some(x) = q.pop() {
            if x == t.id {
                cyclic = true;
                break;
            }
            if seen.insert(x) {
                if let Some(e) = m.types.get(x as usize) {
                    q.extend(e.ty.refs())
                }
            }
        }
        if cyclic {
            break;
        }
    }
    if cyclic {
        obs.class("graph/cyclic");
    }
    if m.types.iter().any(|t| t.ty.refs().contains(&t.id)) {
        obs.class("graph/self_loop");
    }
    let all_roots: Vec<&(Ty, u32)> = tr.roots.iter().flatten().collect();
    let mut seen_ids = BTreeSet::new();
    let mut repeat = false;
    for (_, id) in &all_roots {
        if !seen_ids.insert(*id) {
            repeat = true;
        }
    }
    if repeat {
        obs.class("history/repeat_or_alias");
    }
    if case.ops.iter().any(|o| matches!(o, HOp::MapType(_) | HOp::MapFields(_) | HOp::MapParams(_) | HOp::MapVariants(_))) {
        obs.class("history/map_into_portable");
    }
    // first met as a type parameter: an entry referenced from a params position with a lower-numbered referrer and no earlier root
    for t in &m.types {
        if t.ty.params.iter().any(|p| p.ty.map_or(false, |x| x > t.id)) {
            obs.class("graph/first_met_as_parameter");
            break;
        }
    }
}

fn sample_case(case: &HCase, tr: &Trace) -> serde_json::Value {
    json!({
        "ops": case.ops.iter().take(8).map(|o| match o {
            HOp::Register(t) => format!("register {:?}", ty_of(t)),
            HOp::RegisterTypes(ts) => format!("register_types {:?}", ts.iter().map(ty_of).collect::<Vec<_>>()),
            other => format!("{other:?}"),
        }).collect::<Vec<_>>(),
        "n_ops": case.ops.len(),
        "ids_handed_out": tr.roots.iter().take(8).map(|r| r.iter().map(|(_, i)| *i).collect::<Vec<_>>()).collect::<Vec<_>>(),
        "final_entries": tr.final_reg.types.len(),
    })
}

// ------------------------------------------------------------------------------------------- C01

pub fn c01_hist_body(case: &HCase, obs: &mut Obs) -> Result<(), String> {
    let tr = run_history(case)?;
    for (i, s) in tr.snapshots.iter().enumerate() {
        snapshot_wf(s, i)?;
    }
    wf_lib(&tr.final_reg).map_err(|e| format!("PortableRegistry::from(registry): {e}"))?;
    // every id handed out resolves
    for (_, id) in tr.roots.iter().flatten() {
        if tr.final_reg.resolve(*id).is_none() {
            return Err(format!("returned id {id} does not resolve in the final registry"));
        }
    }
    // (d) decoding its own output
    let enc = tr.final_reg.encode();
    let back = PortableRegistry::decode(&mut &enc[..]).map_err(|e| format!("decode of own output failed: {e}"))?;
    wf_lib(&back).map_err(|e| format!("decode(encode(r)): {e}"))?;
    let js = serde_json::to_value(&tr.final_reg).map_err(|e| e.to_string())?;
    let back2: PortableRegistry = serde_json::from_value(js).map_err(|e| format!("from_json of own output failed: {e}"))?;
    wf_lib(&back2).map_err(|e| format!("from_json(to_json(r)): {e}"))?;
    // (c) retain on the result
    let m = from_lib(&tr.final_reg);
    if !m.types.is_empty() {
        let mask = &case.mask;
        let accept = |id: u32| mask.get(id as usize % mask.len().max(1)).copied().unwrap_or(false);
        let (_, out) = check_retain(&m, &accept).map_err(|e| format!("retain on a registry built by registration: {e}"))?;
        wf_model(&out).map_err(|e| format!("retain result: {e}"))?;
        let enc2 = to_lib(&out).encode();
        let back3 = PortableRegistry::decode(&mut &enc2[..]).map_err(|e| format!("decode after retain failed: {e}"))?;
        wf_lib(&back3).map_err(|e| format!("decode after retain: {e}"))?;
    }
    if m.types.len() >= 2 && m.types.iter().any(|t| !t.ty.refs().is_empty()) {
        obs.nontrivial(&("registry", &enc, &case.ops));
    }
    hist_classes(case, &tr, obs);
    if obs.want_sample() {
        obs.sample(sample_case(case, &tr));
    }
    Ok(())
}

/// C01(b): builder histories under the documented discipline (references only to ids already
/// handed out or to the announced next_type_id)
pub fn c01_builder_body(ops: &Vec<(MType, bool)>, obs: &mut Obs) -> Result<(), String> {
    let mut b = if ops.len() % 2 == 1 { scale_info::PortableRegistryBuilder::default() } else { scale_info::PortableRegistryBuilder::new() };
    for (t, finish_now) in ops {
        let next = b.next_type_id();
        let t = t.map_refs(&mut |r| r % (next + 1));
        let id = b.register_type(type_to_lib(&t));
        if id > next {
            return Err(format!("register_type returned {id} beyond the announced next id {next}"));
        }
        if *finish_now {
            wf_lib(&b.finish()).map_err(|e| format!("builder.finish() mid-history: {e}"))?;
        }
    }
    let r = b.finish();
    wf_lib(&r).map_err(|e| format!("builder.finish(): {e}"))?;
    let m = from_lib(&r);
    // and everything downstream of it
    let enc = r.encode();
    wf_lib(&PortableRegistry::decode(&mut &enc[..]).map_err(|e| e.to_string())?)?;
    if !m.types.is_empty() {
        let n = m.types.len();
        let (_, out) = check_retain(&m, &|id| (id as usize * 7 + n) % 3 != 0)?;
        wf_model(&out)?;
    }
    if m.types.len() >= 2 && m.types.iter().any(|t| !t.ty.refs().is_empty()) {
        obs.nontrivial(&("builder", &enc));
    }
    if m.types.iter().any(|t| t.ty.refs().contains(&t.id)) {
        obs.class("builder/self_reference");
    }
    obs.class(if m.types.len() < ops.len() { "builder/duplicates_collapsed" } else { "builder/all_distinct" });
    if obs.want_sample() {
        obs.sample(json!({"builder_registrations": ops.len(), "final_entries": m.types.len(), "first": crate::p_reg::sample_reg(&m)}));
    }
    Ok(())
}

// ------------------------------------------------------------------------------------------- C02

pub fn c02_body(case: &HCase, obs: &mut Obs) -> Result<(), String> {
    let tr = run_history(case)?;
    let Some(last) = tr.snapshots.last() else { return Ok(()) };
    let roots: Vec<(Ty, u32)> = tr.roots.iter().flatten().cloned().collect();
    let mroots: Vec<(MetaType, u32)> = tr.meta_roots.iter().flatten().cloned().collect();
    // the final PortableRegistry and the last Registry snapshot are the same thing
    let final_snap: Snapshot = tr.final_reg.types.iter().map(|t| (t.id, type_from_lib(&t.ty))).collect();
    if &final_snap != last {
        return Err("PortableRegistry::from(registry) differs from Registry::types()".into());
    }
    walk_spec_opt(&final_snap, &roots, &case.spec, false)?;
    sim_opt(&final_snap, &mroots, false)?;
    let m = from_lib(&tr.final_reg);
    if roots.iter().any(|(_, id)| m.types.get(*id as usize).map_or(false, |t| !t.ty.refs().is_empty())) {
        obs.nontrivial(&(&case.spec, &case.ops));
    }
    hist_classes(case, &tr, obs);
    if obs.want_sample() {
        obs.sample(sample_case(case, &tr));
    }
    Ok(())
}

// ------------------------------------------------------------------------------------------- C05

pub fn c05_body(case: &HCase, obs: &mut Obs) -> Result<(), String> {
    let spec = Arc::new(case.spec.clone());
    install(spec.clone());
    let mut reg = Registry::new();
    let mut seen: HashMap<Ident, u32> = HashMap::new();
    let mut seen_ids: HashMap<u32, Ident> = HashMap::new();
    let mut all_roots: Vec<(Ty, u32)> = vec![];
    let mut repeat_after_other = false;
    let mut distinct_regs = 0usize;
    // groups of targets: one group per operation; a group of several goes through register_types
    let groups: Vec<Vec<Target>> = case
        .ops
        .iter()
        .filter_map(|o| match o {
            HOp::Register(t) => Some(vec![t.clone()]),
            HOp::RegisterTypes(ts) if !ts.is_empty() => Some(ts.clone()),
            _ => None,
        })
        .collect();
    let targets: Vec<Target> = groups.iter().flatten().cloned().collect();
    for group in &groups {
        let before = snapshot(&reg);
        let ids: Vec<u32> = if group.len() == 1 {
            vec![reg.register_type(&meta_of(&group[0])).id]
        } else {
            obs.class("op/register_types");
            let r = reg.register_types(group.iter().map(meta_of).collect::<Vec<_>>());
            if r.len() != group.len() {
                return Err(format!("register_types returned {} ids for {} types", r.len(), group.len()));
            }
            r.into_iter().map(|s| s.id).collect()
        };
        let after = snapshot(&reg);
        // (i) present already (directly or as a sub-type) => same id; all present => registry unchanged
        let mut all_present = true;
        let mut in_call: HashMap<Ident, u32> = HashMap::new();
        for (t, id) in group.iter().zip(ids.iter()) {
            let idn = ident(&ty_of(t));
            let prev = seen.get(&idn).copied().or(in_call.get(&idn).copied());
            match prev {
                Some(p) => {
                    if p != *id {
                        return Err(format!("[sig:identity-split] re-registering {idn:?} returned {id}, it already had id {p}"));
                    }
                    if distinct_regs >= 2 {
                        repeat_after_other = true;
                    }
                }
                None => {
                    if !seen.contains_key(&idn) {
                        all_present = false;
                    }
                    distinct_regs += 1;
                }
            }
            in_call.insert(idn, *id);
            all_roots.push((ty_of(t), *id));
        }
        if all_present && before != after {
            return Err(format!("registering only types that are already present changed the registry ({} -> {} entries)", before.len(), after.len()));
        }
        // refresh identity <-> id from everything reachable (sub-types count as present)
        let (ids, _) = walk_spec(&after, &all_roots, &spec)?;
        // (iii) exactly one entry per distinct identity reachable from what was registered
        if ids.len() != after.len() {
            return Err(format!("[sig:entry-count] registry has {} entries but {} distinct type identities are reachable from what was registered", after.len(), ids.len()));
        }
        for (k, v) in &ids {
            if let Some(prev) = seen.get(k) {
                if prev != v {
                    return Err(format!("id of {k:?} changed from {prev} to {v}"));
                }
            }
            if let Some(prev) = seen_ids.get(v) {
                if prev != k {
                    return Err(format!("[sig:identity-merge] id {v} stands for {prev:?} and {k:?}"));
                }
            }
        }
        seen = ids.clone();
        seen_ids = ids.into_iter().map(|(k, v)| (v, k)).collect();
    }
    // (iv) each node's definition evaluated at most once per registry
    let c = calls();
    for (i, n) in c.iter().enumerate() {
        if *n > 1 {
            return Err(format!("[sig:evaluated-twice] type_info() of node {i} was evaluated {n} times by one Registry"));
        }
        // ("at most once": a registry that holds a node without having evaluated it - a shared
        // cache, say - is not what C05 forbids; it is only counted)
        let reachable = seen.contains_key(&Ident::Exact(Ty::N(i as u8)));
        if reachable && *n == 0 {
            obs.class("evaluations/none_for_a_reachable_node");
        }
    }
    // re-register everything once more, in reverse: nothing may change
    let before = snapshot(&reg);
    obs.class(match before.len() {
        0..=16 => "registry_size/up_to_16",
        17..=32 => "registry_size/17_to_32",
        33..=256 => "registry_size/33_to_256",
        _ => "registry_size/over_256",
    });
    for (t, (_, id)) in targets.iter().zip(all_roots.iter()).rev() {
        let again = reg.register_type(&meta_of(t)).id;
        if again != *id {
            return Err(format!("second registration of {:?} returned {again}, first returned {id}", ty_of(t)));
        }
    }
    if snapshot(&reg) != before {
        return Err("re-registering every type changed the registry".into());
    }
    if calls() != c {
        return Err("[sig:evaluated-twice] re-registering evaluated a definition again".into());
    }
    if repeat_after_other {
        obs.nontrivial(&(&case.spec, &targets));
    }
    for t in &targets {
        let ty = ty_of(t);
        if ident(&ty) != Ident::Exact(ty.clone()) {
            obs.class("registered/transparent_wrapper_or_alias");
        }
    }
    obs.class_n("registered/total", targets.len() as u64);
    if obs.want_sample() {
        obs.sample(json!({"registered": targets.iter().take(10).map(|t| format!("{:?}", ty_of(t))).collect::<Vec<_>>(), "ids": all_roots.iter().take(10).map(|(_, i)| *i).collect::<Vec<_>>(), "entries": before.len(), "type_info_calls": c.to_vec()}));
    }
    Ok(())
}

// ------------------------------------------------------------------------------------------- C11

/// extend `map` (old id -> new id) structurally; both registries are models
pub fn iso_extend(a: &MReg, b: &MReg, pairs: &[(u32, u32)]) -> Result<BTreeMap<u32, u32>, String> {
    let mut map: BTreeMap<u32, u32> = BTreeMap::new();
    let mut rev: BTreeMap<u32, u32> = BTreeMap::new();
    let mut q: Vec<(u32, u32)> = pairs.to_vec();
    while let Some((x, y)) = q.pop() {
        match (map.get(&x), rev.get(&y)) {
            (Some(y2), _) if *y2 != y => return Err(format!("id {x} would map to both {y2} and {y}")),
            (_, Some(x2)) if *x2 != x => return Err(format!("ids {x2} and {x} would both map to {y}")),
            (Some(_), _) => continue,
            _ => {}
        }
        map.insert(x, y);
        rev.insert(y, x);
        let ta = &a.types.get(x as usize).ok_or("dangling id in first registry")?.ty;
        let tb = &b.types.get(y as usize).ok_or("dangling id in second registry")?.ty;
        let ra = ta.refs();
        let rb = tb.refs();
        if ra.len() != rb.len() {
            return Err(format!("entries {x} and {y} have different shapes"));
        }
        // equal modulo references
        let za = ta.map_refs(&mut |_| 0);
        let zb = tb.map_refs(&mut |_| 0);
        if za != zb {
            return Err(format!("entries {x} and {y} differ in more than ids"));
        }
        q.extend(ra.into_iter().zip(rb));
    }
    Ok(map)
}

pub fn c11_body(case: &HCase, obs: &mut Obs) -> Result<(), String> {
    let tr = run_history(case)?;
    // every later state extends the earlier ones
    let mut handed: Vec<(u32, MType)> = vec![];
    let mut prev: &Snapshot = &vec![];
    for (step, s) in tr.snapshots.iter().enumerate() {
        if s.len() < prev.len() {
            return Err(format!("after op {step}: the registry shrank from {} to {} entries", prev.len(), s.len()));
        }
        if s[..prev.len()] != prev[..] {
            let at = s.iter().zip(prev.iter()).position(|(a, b)| a != b).unwrap();
            return Err(format!("after op {step}: existing entry at position {at} was renumbered or altered: {:?} -> {:?}", prev[at], s[at]));
        }
        for (k, (id, _)) in s[prev.len()..].iter().enumerate() {
            if *id as usize != prev.len() + k {
                return Err(format!("after op {step}: new entry got id {id}, expected {}", prev.len() + k));
            }
        }
        // ids handed out earlier still resolve to the definition they had when returned
        for (id, def) in &handed {
            match s.iter().find(|(i, _)| i == id) {
                Some((_, d)) if d == def => {}
                other => return Err(format!("after op {step}: id {id} handed out earlier now resolves to {:?}", other.map(|x| &x.1))),
            }
        }
        for (_, id) in &tr.roots[step] {
            if let Some((_, d)) = s.iter().find(|(i, _)| i == id) {
                handed.push((*id, d.clone()));
            } else {
                return Err(format!("after op {step}: id {id} returned by this op is not in Registry::types()"));
            }
        }
        prev = s;
    }
    // replay: byte-identical, on this thread and on another one
    let enc = tr.final_reg.encode();
    let tr2 = run_history(case)?;
    if tr2.final_reg.encode() != enc {
        return Err("replaying the same registrations in a fresh Registry gives a different encoding".into());
    }
    if tr2.roots != tr.roots {
        return Err("replaying the same registrations hands out different ids".into());
    }
    let c2 = case.clone();
    let enc3 = std::thread::spawn(move || run_history(&c2).map(|t| t.final_reg.encode()))
        .join()
        .map_err(|_| "replay on another thread panicked".to_string())??;
    if enc3 != enc {
        return Err("replaying the same registrations on another thread gives a different encoding".into());
    }
    // permutation of the roots
    let targets: Vec<Target> = case
        .ops
        .iter()
        .flat_map(|o| match o {
            HOp::Register(t) => vec![t.clone()],
            HOp::RegisterTypes(ts) => ts.clone(),
            _ => vec![],
        })
        .collect();
    let mut nontrivial = false;
    if !targets.is_empty() {
        let only_regs = HCase { spec: case.spec.clone(), ops: targets.iter().cloned().map(HOp::Register).collect(), mask: vec![], perm: vec![] };
        let base = run_history(&only_regs)?;
        // a permutation from the generated keys (stable sort by key)
        let mut order: Vec<usize> = (0..targets.len()).collect();
        order.sort_by_key(|i| case.perm.get(*i).copied().unwrap_or(0));
        let permuted = HCase { spec: case.spec.clone(), ops: order.iter().map(|i| HOp::Register(targets[*i].clone())).collect(), mask: vec![], perm: vec![] };
        let other = run_history(&permuted)?;
        let a = from_lib(&base.final_reg);
        let b = from_lib(&other.final_reg);
        if a.types.len() != b.types.len() {
            return Err(format!("registering the same roots in another order gives {} entries instead of {}", b.types.len(), a.types.len()));
        }
        let pairs: Vec<(u32, u32)> = order.iter().enumerate().map(|(pos, i)| (base.roots[*i][0].1, other.roots[pos][0].1)).collect();
        let map = iso_extend(&a, &b, &pairs).map_err(|e| format!("registries of two registration orders are not isomorphic: {e}"))?;
        if map.len() != a.types.len() {
            return Err("registries of two registration orders: the root-induced renaming does not cover every entry".into());
        }
        let identity_perm = order.iter().enumerate().all(|(p, i)| p == *i);
        let shared = {
            // two roots sharing a sub-type: some entry referenced from two different entries
            let mut cnt: HashMap<u32, BTreeSet<u32>> = HashMap::new();
            for t in &a.types {
                for r in t.ty.refs() {
                    cnt.entry(r).or_default().insert(t.id);
                }
            }
            cnt.values().any(|s| s.len() >= 2)
        };
        if !identity_perm {
            obs.class("permutation/non_identity");
        }
        if !identity_perm && shared && targets.len() >= 2 {
            nontrivial = true;
        }
        if base.final_reg != other.final_reg {
            obs.class("permutation/changes_numbering");
        }
    }
    if nontrivial {
        obs.nontrivial(&(&case.spec, &case.ops, &case.perm));
    }
    hist_classes(case, &tr, obs);
    if obs.want_sample() {
        obs.sample(sample_case(case, &tr));
    }
    Ok(())
}

// ------------------------------------------------------------------------------------------- C16

#[derive(Clone, Debug, Serialize, Deserialize)]
pub struct C16Case {
    pub spec: GraphSpec,
    pub a: Target,
    pub b: Target,
    pub c: Target,
}

fn hash_of<T: std::hash::Hash>(t: &T) -> u64 {
    use std::hash::Hasher;
    let mut h = std::collections::hash_map::DefaultHasher::new();
    t.hash(&mut h);
    h.finish()
}

pub fn c16_body(case: &C16Case, obs: &mut Obs) -> Result<(), String> {
    install(Arc::new(case.spec.clone()));
    let ts = [&case.a, &case.b, &case.c];
    let ms: Vec<MetaType> = ts.iter().map(|t| meta_of(t)).collect();
    let tys: Vec<Ty> = ts.iter().map(|t| ty_of(t)).collect();
    let decl: Vec<TypeId> = ts.iter().map(|t| declared_identity(t)).collect();
    for i in 0..3 {
        for j in 0..3 {
            // "declare the same identity": <T as TypeInfo>::Identity, computed without MetaType
            let same = decl[i] == decl[j];
            let (a, b) = (&ms[i], &ms[j]);
            if (a == b) != same {
                return Err(format!("[sig:metatype-eq] MetaType of {:?} == MetaType of {:?} is {}, identities are {}", tys[i], tys[j], a == b, if same { "the same" } else { "different" }));
            }
            if (a != b) == (a == b) {
                return Err("!= is not the negation of ==".into());
            }
            let ord = a.cmp(b);
            if (ord == std::cmp::Ordering::Equal) != (a == b) {
                return Err(format!("cmp is {:?} but == is {} for {:?} / {:?}", ord, a == b, tys[i], tys[j]));
            }
            if a.partial_cmp(b) != Some(ord) {
                return Err("partial_cmp disagrees with cmp".into());
            }
            if b.cmp(a) != ord.reverse() {
                return Err(format!("cmp is not antisymmetric for {:?} / {:?}", tys[i], tys[j]));
            }
            if a == b && hash_of(a) != hash_of(b) {
                return Err(format!("equal MetaTypes hash differently: {:?} / {:?}", tys[i], tys[j]));
            }
            if (a.type_id() == b.type_id()) != (a == b) {
                return Err(format!("type_id() equality disagrees with == for {:?} / {:?}", tys[i], tys[j]));
            }
            if format!("{a:?}") == format!("{b:?}") && a != b {
                return Err("distinct MetaTypes have the same Debug form".into());
            }
            if a == b {
                // coherence: any two types declaring the same identity return equal definitions
                let (ia, ib) = without_counting(|| (a.type_info(), b.type_info()));
                if ia != ib {
                    return Err(format!("[sig:incoherent-alias] {:?} and {:?} declare the same identity but return different definitions", tys[i], tys[j]));
                }
            }
        }
    }
    // transitivity of the order on the triple
    let mut sorted = ms.clone();
    sorted.sort();
    for w in sorted.windows(2) {
        if w[0].cmp(&w[1]) == std::cmp::Ordering::Greater {
            return Err("sorting by cmp leaves an inversion (order not transitive)".into());
        }
    }
    if sorted[0].cmp(&sorted[2]) == std::cmp::Ordering::Greater {
        return Err("order is not transitive on a triple".into());
    }
    if tys[0] != tys[1] {
        obs.nontrivial(&(&tys[0], &tys[1], &tys[2]));
    }
    if tys[0] != tys[1] && ident(&tys[0]) == ident(&tys[1]) {
        obs.class("pair/different_types_same_identity");
    } else if tys[0] != tys[1] {
        obs.class("pair/different_identity");
    } else {
        obs.class("pair/same_type");
    }
    if obs.want_sample() {
        obs.sample(json!({"a": format!("{:?}", tys[0]), "b": format!("{:?}", tys[1]), "c": format!("{:?}", tys[2]), "a==b": ms[0] == ms[1]}));
    }
    Ok(())
}

// ------------------------------------------------------------------------------- generators

fn hop() -> impl Strategy<Value = HOp> {
    prop_oneof![
        10 => gen::target().prop_map(HOp::Register),
        3 => vec(gen::target(), 0..5).prop_map(HOp::RegisterTypes),
        1 => (0u8..NN as u8).prop_map(HOp::MapType),
        1 => (0u8..NN as u8).prop_map(HOp::MapFields),
        1 => (0u8..NN as u8).prop_map(HOp::MapParams),
        1 => (0u8..NN as u8).prop_map(HOp::MapVariants),
    ]
}

/// histories with deliberate repetition: a later op re-registers (an alias of) an earlier target
fn ops_with_repeats(max: usize) -> impl Strategy<Value = Vec<HOp>> {
    (vec(hop(), 0..max), vec((any::<u16>(), any::<u16>(), 0u8..9), 0..4)).prop_map(|(mut ops, reps)| {
        for (from, at, shape) in reps {
            let targets: Vec<Target> = ops
                .iter()
                .flat_map(|o| match o {
                    HOp::Register(t) => vec![t.clone()],
                    HOp::RegisterTypes(ts) => ts.clone(),
                    _ => vec![],
                })
                .collect();
            if targets.is_empty() {
                break;
            }
            let mut t = targets[pick(from, targets.len())].clone();
            // shapes 0..9 are the node itself and its transparent wrappers / aliases
            if t.shape < 9 {
                t.shape = shape;
            }
            let pos = pick(at, ops.len() + 1);
            ops.insert(pos, HOp::Register(t));
        }
        ops
    })
}

pub fn hcase(max_ops: usize) -> BoxedStrategy<HCase> {
    (gen::graph(), ops_with_repeats(max_ops), vec(any::<bool>(), 1..40), vec(any::<u16>(), 0..24))
        .prop_map(|(spec, ops, mask, perm)| HCase { spec, ops, mask, perm })
        .boxed()
}

/// histories long enough for registries of several hundred distinct types (tables that change
/// their behaviour with size: 16 / 32 / 256 entries)
pub fn hcase_long() -> BoxedStrategy<HCase> {
    (gen::graph(), any::<u64>(), 280usize..640, vec(any::<bool>(), 1..40), vec(any::<u16>(), 0..24))
        .prop_map(|(spec, seed, n, mask, perm)| {
            // n distinct (shape, node, delta) targets: the whole menu in an order fixed by `seed`
            // (Fisher-Yates driven by a splitmix stream of the generated value, so the case is
            // still a pure function of what proptest generated)
            let mut all: Vec<Target> = vec![];
            for shape in 0..N_SHAPES {
                for j in 0..NN as u8 {
                    for d in 0..3u8 {
                        all.push(Target { shape, j, d });
                    }
                }
            }
            let mut x = seed;
            let mut next = move || {
                x = x.wrapping_add(0x9e37_79b9_7f4a_7c15);
                let mut z = x;
                z = (z ^ (z >> 30)).wrapping_mul(0xbf58_476d_1ce4_e5b9);
                z = (z ^ (z >> 27)).wrapping_mul(0x94d0_49bb_1331_11eb);
                z ^ (z >> 31)
            };
            for i in (1..all.len()).rev() {
                let k = (next() % (i as u64 + 1)) as usize;
                all.swap(i, k);
            }
            all.truncate(n);
            let mut ops: Vec<HOp> = vec![];
            let mut it = all.into_iter().peekable();
            while it.peek().is_some() {
                if next() % 5 == 0 {
                    let k = 2 + (next() % 4) as usize;
                    ops.push(HOp::RegisterTypes((&mut it).take(k).collect()));
                } else {
                    ops.push(HOp::Register(it.next().unwrap()));
                }
            }
            HCase { spec, ops, mask, perm }
        })
        .boxed()
}

pub fn c01_subs() -> Vec<Box<dyn Sub>> {
    vec![
        Box::new(Check {
            name: "registry_histories",
            quick: 16_000,
            thorough: 600_000,
            strat: Box::new(|| hcase(24)),
            body: Box::new(c01_hist_body),
            guard_death: true,
            max_shrink: 4096,
        }),
        Box::new(Check {
            name: "registry_long_histories",
            quick: 320,
            thorough: 1_600,
            strat: Box::new(hcase_long),
            body: Box::new(c01_hist_body),
            guard_death: true,
            max_shrink: 128,
        }),
        Box::new(Check {
            name: "builder_histories",
            quick: 16_000,
            thorough: 400_000,
            strat: Box::new(|| vec((crate::genreg::mtype(crate::genreg::id_wild()), prop::bool::weighted(0.1)), 0..20).boxed()),
            body: Box::new(c01_builder_body),
            guard_death: true,
            max_shrink: 4096,
        }),
        Box::new(Check {
            name: "retain_generated",
            quick: 10_000,
            thorough: 300_000,
            strat: Box::new(|| {
                // mostly small random graphs; one case in sixteen is a registry with a reference
                // path of 65-200 entries under a sparse mask (see C10 `retain_deep`)
                prop_oneof![15 => crate::genreg::reg_wf(16).boxed(), 1 => crate::genreg::reg_deep(200).boxed()]
                    .prop_flat_map(|m| {
                        let n = m.types.len();
                        let mask = if n > 16 { vec(prop::bool::weighted(0.02), n..=n).boxed() } else { vec(any::<bool>(), n..=n).boxed() };
                        (Just(m), mask)
                    })
                    .prop_map(|(m, mask)| crate::p_reg::C10Case { m, mask, outside: false })
                    .boxed()
            }),
            body: Box::new(|c: &crate::p_reg::C10Case, obs: &mut Obs| {
                let mask = &c.mask;
                let (_, out) = check_retain(&c.m, &|id| mask.get(id as usize).copied().unwrap_or(false))?;
                let lib = to_lib(&out);
                wf_lib(&lib)?;
                let enc = lib.encode();
                wf_lib(&PortableRegistry::decode(&mut &enc[..]).map_err(|e| e.to_string())?)?;
                if out.types.len() >= 2 && out.types.iter().any(|t| !t.ty.refs().is_empty()) {
                    obs.nontrivial(&("retain", &enc));
                }
                if c.m.types.len() > 64 {
                    obs.class("retain_input/path_of_65_or_more_entries");
                }
                if obs.want_sample() {
                    obs.sample(json!({"retain_input_entries": c.m.types.len(), "mask": c.mask, "output_entries": out.types.len()}));
                }
                Ok(())
            }),
            guard_death: true,
            max_shrink: 4096,
        }),
    ]
}

pub fn c02_subs() -> Vec<Box<dyn Sub>> {
    vec![Box::new(Check {
        name: "faithful_image",
        quick: 24_000,
        thorough: 800_000,
        strat: Box::new(|| hcase(20)),
        body: Box::new(c02_body),
        guard_death: true,
            max_shrink: 4096,
    })]
}

pub fn c05_subs() -> Vec<Box<dyn Sub>> {
    vec![
        Box::new(Check {
            name: "one_entry_per_identity",
            quick: 16_000,
            thorough: 500_000,
            strat: Box::new(|| hcase(16)),
            body: Box::new(c05_body),
            guard_death: false,
            max_shrink: 4096,
        }),
        Box::new(Check {
            name: "one_entry_per_identity_long_histories",
            quick: 320,
            thorough: 1_600,
            strat: Box::new(hcase_long),
            body: Box::new(c05_body),
            guard_death: false,
            max_shrink: 128,
        }),
    ]
}

pub fn c11_subs() -> Vec<Box<dyn Sub>> {
    vec![
        Box::new(Check {
            name: "stable_reproducible",
            quick: 10_000,
            thorough: 300_000,
            strat: Box::new(|| hcase(16)),
            body: Box::new(c11_body),
            guard_death: false,
            max_shrink: 4096,
        }),
        Box::new(Check {
            name: "stable_reproducible_long_histories",
            quick: 160,
            thorough: 800,
            strat: Box::new(hcase_long),
            body: Box::new(c11_body),
            guard_death: false,
            max_shrink: 128,
        }),
    ]
}

pub fn c16_subs() -> Vec<Box<dyn Sub>> {
    vec![Box::new(Check {
        name: "metatype_identity",
        quick: 60_000,
        thorough: 2_000_000,
        strat: Box::new(|| {
            (gen::graph(), gen::target(), gen::target(), gen::target(), any::<u16>())
                .prop_map(|(spec, a, b, c, k)| {
                    // bias towards aliases of the same node
                    let mut b = b;
                    if k % 3 == 0 {
                        b.j = a.j;
                    }
                    if k % 9 == 0 && a.shape < 9 && b.shape >= 9 {
                        b.shape = (k / 9 % 9) as u8;
                    }
                    C16Case { spec, a, b, c }
                })
                .boxed()
        }),
        body: Box::new(c16_body),
        guard_death: false,
            max_shrink: 4096,
    })]
}
