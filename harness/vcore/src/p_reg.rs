//! C06 (wire layout), C07 (SCALE round trip), C08 (JSON shape + round trip), C10 (retain).

use crate::genreg::*;
use crate::model::*;
use crate::refcodec::{compact_class, ref_dec, ref_enc};
use crate::refjson::{normalise, to_json_ref};
use crate::runner::*;
use proptest::collection::vec;
use proptest::prelude::*;
use scale::{Decode, Encode};
use scale_info::PortableRegistry;
use serde_json::json;
use std::collections::{BTreeMap, BTreeSet, HashMap};
use std::sync::Mutex;

pub fn reg_classes(m: &MReg, obs: &mut Obs) {
    obs.class(&format!("n_types/{}", compact_class(m.types.len() as u64)));
    for t in &m.types {
        obs.class(&format!("def/{}", t.ty.def.kind()));
        obs.class(&format!("id/{}", compact_class(t.id as u64)));
        if let MDef::Primitive(p) = &t.ty.def {
            obs.class(&format!("prim/{}", p.json()));
        }
        if let MDef::Array { len, .. } = &t.ty.def {
            obs.class(&format!("arraylen/{}", if *len == u32::MAX { "max" } else if *len > 65535 { ">u16" } else { "small" }));
        }
        for r in t.ty.refs() {
            obs.class(&format!("ref/{}", compact_class(r as u64)));
        }
        obs.class(if t.ty.path.is_empty() { "path/empty" } else { "path/present" });
        obs.class(if t.ty.params.is_empty() { "params/empty" } else { "params/present" });
        obs.class(if t.ty.docs.is_empty() { "docs/empty" } else { "docs/present" });
        for p in &t.ty.params {
            obs.class(if p.ty.is_none() { "param_ty/none" } else { "param_ty/some" });
        }
        let mut strs: Vec<&String> = t.ty.path.iter().chain(t.ty.docs.iter()).collect();
        let fs: Vec<&MField> = match &t.ty.def {
            MDef::Composite(fs) => fs.iter().collect(),
            MDef::Variant(vs) => vs.iter().flat_map(|v| v.fields.iter()).collect(),
            _ => vec![],
        };
        for f in fs {
            obs.class(if f.name.is_none() { "fname/none" } else { "fname/some" });
            obs.class(if f.type_name.is_none() { "ftypename/none" } else { "ftypename/some" });
            obs.class(if f.docs.is_empty() { "fdocs/empty" } else { "fdocs/present" });
            strs.extend(f.name.iter());
            strs.extend(f.type_name.iter());
        }
        for s in strs {
            obs.class(&format!("strlen/{}", compact_class(s.len() as u64)));
            if !s.is_ascii() {
                obs.class("str/non_ascii");
            }
        }
    }
}

pub fn sample_reg(m: &MReg) -> serde_json::Value {
    // samples are kept small: at most 3 types
    let mut s = m.clone();
    s.types.truncate(3);
    let txt = serde_json::to_string(&s).unwrap();
    if txt.len() > 1500 {
        json!({"n_types": m.types.len(), "note": "sample too large to inline", "first_def": m.types.first().map(|t| t.ty.def.kind())})
    } else {
        json!({"n_types": m.types.len(), "first_types": s})
    }
}

// ------------------------------------------------------------------------------------------- C06

pub fn c06_body(m: &MReg, obs: &mut Obs) -> Result<(), String> {
    let lib = to_lib(m);
    let enc = lib.encode();
    let reference = ref_enc(m);
    if enc != reference {
        let at = enc.iter().zip(reference.iter()).position(|(a, b)| a != b).unwrap_or(enc.len().min(reference.len()));
        return Err(format!(
            "library encoding differs from the V14 reference encoder at byte {at} (lib {} bytes, ref {} bytes)",
            enc.len(),
            reference.len()
        ));
    }
    match ref_dec(&enc) {
        Ok((m2, used)) => {
            if &m2 != m {
                return Err("reference decoder reads a different registry from the library's encoding".into());
            }
            if used != enc.len() {
                return Err(format!("reference decoder consumed {used} of {} bytes", enc.len()));
            }
        }
        Err(e) => return Err(format!("reference decoder rejects the library's encoding: {e}")),
    }
    let mut input = &reference[..];
    match PortableRegistry::decode(&mut input) {
        Ok(r) => {
            if from_lib(&r) != *m {
                return Err("library decodes the reference encoding to a different registry".into());
            }
            if !input.is_empty() {
                return Err(format!("library left {} bytes of the reference encoding unread", input.len()));
            }
        }
        Err(e) => return Err(format!("library rejects the reference encoding: {e}")),
    }
    if !m.types.is_empty() {
        obs.nontrivial(&enc);
    }
    reg_classes(m, obs);
    if obs.want_sample() {
        obs.sample(json!({"registry": sample_reg(m), "encoded_len": enc.len(), "encoded_prefix_hex": hex(&enc[..enc.len().min(48)])}));
    }
    Ok(())
}

pub fn hex(b: &[u8]) -> String {
    b.iter().map(|x| format!("{x:02x}")).collect()
}

pub fn c06_subs() -> Vec<Box<dyn Sub>> {
    vec![
        Box::new(Check {
            name: "layout_wild",
            quick: 40_000,
            thorough: 1_500_000,
            strat: Box::new(|| reg_wild().boxed()),
            body: Box::new(c06_body),
            guard_death: false,
            max_shrink: 4096,
        }),
        Box::new(Check {
            name: "layout_large",
            quick: 320,
            thorough: 8_000,
            strat: Box::new(|| reg_large().boxed()),
            body: Box::new(c06_body),
            guard_death: false,
            max_shrink: 64,
        }),
        Box::new(Check {
            name: "layout_wf",
            quick: 10_000,
            thorough: 500_000,
            strat: Box::new(|| reg_wf(12).boxed()),
            body: Box::new(c06_body),
            guard_death: false,
            max_shrink: 4096,
        }),
    ]
}

// ------------------------------------------------------------------------------------------- C07

#[derive(Clone, Debug, serde::Serialize, serde::Deserialize)]
pub struct C07Case {
    pub m: MReg,
    pub other: MReg,
    pub which: u16,
    pub sel: u16,
    pub trailer: Vec<u8>,
}

static ENC_SEEN: Mutex<Option<HashMap<u128, u128>>> = Mutex::new(None);

fn note_encoding(enc: &[u8], m: &MReg) -> Result<(), String> {
    let he = hash128(enc);
    let hm = hash128(m);
    let mut g = ENC_SEEN.lock().unwrap();
    let map = g.get_or_insert_with(HashMap::new);
    if map.len() > 4_000_000 {
        map.clear();
    }
    match map.insert(he, hm) {
        Some(prev) if prev != hm => Err("two different registries of this run share one encoding".into()),
        _ => Ok(()),
    }
}

pub fn c07_body(c: &C07Case, obs: &mut Obs) -> Result<(), String> {
    let m = &c.m;
    let lib = to_lib(m);
    let enc = lib.encode();
    // lossless + exact consumption, with a trailer appended
    let mut buf = enc.clone();
    buf.extend_from_slice(&c.trailer);
    let mut input = &buf[..];
    let back = PortableRegistry::decode(&mut input).map_err(|e| format!("decode of own encoding failed: {e}"))?;
    if back != lib {
        return Err("decode(encode(r)) != r".into());
    }
    if from_lib(&back) != *m {
        return Err("decode(encode(r)) differs from r when read through public fields".into());
    }
    if input != &c.trailer[..] {
        return Err(format!(
            "decode consumed {} bytes but the encoding is {} bytes long",
            buf.len() - input.len(),
            enc.len()
        ));
    }
    if lib.encoded_size() != enc.len() {
        return Err("encoded_size() disagrees with encode().len()".into());
    }
    // determinism: twice, and from another thread for a fraction of cases
    if lib.encode() != enc {
        return Err("encode is not deterministic".into());
    }
    if c.which % 16 == 0 {
        let lib2 = lib.clone();
        let e2 = std::thread::spawn(move || lib2.encode()).join().map_err(|_| "encode panicked on another thread")?;
        if e2 != enc {
            return Err("encode differs between threads".into());
        }
    }
    note_encoding(&enc, m)?;
    // injectivity on near-collision pairs
    let mut pair_nontrivial = false;
    if let Some(m2) = mutate(m, c.which, c.sel) {
        let e2 = to_lib(&m2).encode();
        if e2 == enc {
            return Err(format!("registry and its mutation #{} share an encoding", c.which % 12));
        }
        note_encoding(&e2, &m2)?;
        obs.class(&format!("mutation/{}", c.which % 12));
        pair_nontrivial = true;
    }
    if c.other != *m {
        let lo = to_lib(&c.other);
        let eo = lo.encode();
        if eo == enc {
            return Err("two different registries share an encoding".into());
        }
        if lo == lib {
            return Err("two different models map to equal library registries (harness bug)".into());
        }
        note_encoding(&eo, &c.other)?;
        pair_nontrivial = true;
    }
    if !m.types.is_empty() && pair_nontrivial {
        obs.nontrivial(&enc);
    }
    reg_classes(m, obs);
    obs.class(if c.trailer.is_empty() { "trailer/empty" } else { "trailer/present" });
    if obs.want_sample() {
        obs.sample(json!({"registry": sample_reg(m), "mutation": c.which % 12, "trailer_len": c.trailer.len(), "encoded_len": enc.len()}));
    }
    Ok(())
}

fn c07_strat(wf: bool) -> BoxedStrategy<C07Case> {
    let reg = if wf { reg_wf(10).boxed() } else { reg_wild().boxed() };
    let other = if wf { reg_wf(3).boxed() } else { reg_wild().boxed() };
    (reg, other, any::<u16>(), any::<u16>(), vec(any::<u8>(), 0..12))
        .prop_map(|(m, other, which, sel, trailer)| C07Case { m, other, which, sel, trailer })
        .boxed()
}

pub fn c07_subs() -> Vec<Box<dyn Sub>> {
    vec![
        Box::new(Check {
            name: "roundtrip_wild",
            quick: 40_000,
            thorough: 1_500_000,
            strat: Box::new(|| c07_strat(false)),
            body: Box::new(c07_body),
            guard_death: false,
            max_shrink: 4096,
        }),
        Box::new(Check {
            name: "roundtrip_large",
            quick: 320,
            thorough: 8_000,
            strat: Box::new(|| (reg_large(), any::<u16>(), any::<u16>(), vec(any::<u8>(), 0..6)).prop_map(|(m, which, sel, trailer)| C07Case { m, other: MReg::default(), which, sel, trailer }).boxed()),
            body: Box::new(c07_body),
            guard_death: false,
            max_shrink: 64,
        }),
        Box::new(Check {
            name: "roundtrip_wf",
            quick: 10_000,
            thorough: 500_000,
            strat: Box::new(|| c07_strat(true)),
            body: Box::new(c07_body),
            guard_death: false,
            max_shrink: 4096,
        }),
    ]
}

// ------------------------------------------------------------------------------------------- C08

const DOC_KEYS: [&str; 13] = [
    "types", "id", "type", "path", "params", "def", "docs", "name", "typeName", "index", "fields", "variants", "len",
];
const DEF_TAGS: [&str; 8] = ["composite", "variant", "sequence", "array", "tuple", "primitive", "compact", "bitsequence"];

pub fn c08_body(m: &MReg, obs: &mut Obs) -> Result<(), String> {
    let lib = to_lib(m);
    let mut actual = serde_json::to_value(&lib).map_err(|e| format!("to_value failed: {e}"))?;
    let raw_actual = actual.clone();
    let mut expected = to_json_ref(m);
    normalise(&mut actual);
    normalise(&mut expected);
    if actual != expected {
        return Err(format!(
            "JSON differs from the documented shape: lib={} expected={}",
            truncate(&actual.to_string(), 600),
            truncate(&expected.to_string(), 600)
        ));
    }
    // every `def` object has exactly one, documented, lower-case tag
    for t in raw_actual["types"].as_array().ok_or("types is not an array")? {
        let def = t["type"]["def"].as_object().ok_or("def is not an object")?;
        if def.len() != 1 || !DEF_TAGS.contains(&def.keys().next().unwrap().as_str()) {
            return Err(format!("def object has unexpected tags: {:?}", def.keys().collect::<Vec<_>>()));
        }
    }
    let _ = DOC_KEYS;
    // read back: from_value and from_str(to_string)
    let back: PortableRegistry = serde_json::from_value(raw_actual.clone()).map_err(|e| format!("from_value of own JSON failed: {e}"))?;
    if back != lib {
        return Err("from_value(to_value(r)) != r".into());
    }
    let txt = serde_json::to_string(&lib).map_err(|e| format!("to_string failed: {e}"))?;
    let back2: PortableRegistry = serde_json::from_str(&txt).map_err(|e| format!("from_str of own JSON text failed: {e}"))?;
    if back2 != lib {
        return Err("from_str(to_string(r)) != r".into());
    }
    let pretty = serde_json::to_string_pretty(&lib).map_err(|e| format!("to_string_pretty failed: {e}"))?;
    let back3: PortableRegistry = serde_json::from_str(&pretty).map_err(|e| format!("from_str of pretty JSON failed: {e}"))?;
    if back3 != lib {
        return Err("from_str(to_string_pretty(r)) != r".into());
    }
    // JSON and SCALE carry the same information
    let enc = lib.encode();
    let via_scale = PortableRegistry::decode(&mut &enc[..]).map_err(|e| format!("decode failed: {e}"))?;
    if via_scale != back || back.encode() != enc {
        return Err("JSON round trip and SCALE round trip disagree".into());
    }
    if from_lib(&back) != *m {
        return Err("JSON round trip differs from the model when read through public fields".into());
    }
    // non-trivial: >= 1 type having one present and one omitted optional part
    let nt = m.types.iter().any(|t| {
        let mut present = 0;
        let mut absent = 0;
        let mut part = |p: bool| if p { present += 1 } else { absent += 1 };
        part(!t.ty.path.is_empty());
        part(!t.ty.params.is_empty());
        part(!t.ty.docs.is_empty());
        match &t.ty.def {
            MDef::Composite(fs) => {
                part(!fs.is_empty());
                for f in fs {
                    part(f.name.is_some());
                    part(f.type_name.is_some());
                    part(!f.docs.is_empty());
                }
            }
            MDef::Variant(vs) => {
                part(!vs.is_empty());
                for v in vs {
                    part(!v.fields.is_empty());
                    part(!v.docs.is_empty());
                }
            }
            _ => {}
        }
        present > 0 && absent > 0
    });
    if nt {
        obs.nontrivial(&txt);
    }
    reg_classes(m, obs);
    if obs.want_sample() {
        obs.sample(json!({"json": truncate(&txt, 1200)}));
    }
    Ok(())
}

pub fn truncate(s: &str, n: usize) -> String {
    if s.len() <= n {
        s.to_string()
    } else {
        let mut cut = n;
        while !s.is_char_boundary(cut) {
            cut -= 1;
        }
        format!("{}…(+{} bytes)", &s[..cut], s.len() - cut)
    }
}

pub fn c08_subs() -> Vec<Box<dyn Sub>> {
    vec![
        Box::new(Check {
            name: "json_wild",
            quick: 24_000,
            thorough: 800_000,
            strat: Box::new(|| reg_wild().boxed()),
            body: Box::new(c08_body),
            guard_death: false,
            max_shrink: 4096,
        }),
        Box::new(Check {
            name: "json_large",
            quick: 160,
            thorough: 4_000,
            strat: Box::new(|| reg_large().boxed()),
            body: Box::new(c08_body),
            guard_death: false,
            max_shrink: 64,
        }),
        Box::new(Check {
            name: "json_wf",
            quick: 6_000,
            thorough: 200_000,
            strat: Box::new(|| reg_wf(10).boxed()),
            body: Box::new(c08_body),
            guard_death: false,
            max_shrink: 4096,
        }),
    ]
}

// ------------------------------------------------------------------------------------------- C10

#[derive(Clone, Debug, serde::Serialize, serde::Deserialize)]
pub struct C10Case {
    pub m: MReg,
    pub mask: Vec<bool>,
    /// the predicate's answer for every id that is not an id of the registry (`|_| true`,
    /// `|id| id != x`, ... are filters too)
    #[serde(default)]
    pub outside: bool,
}

/// reference reachability: BFS over every reference position from the accepted ids
pub fn reachable(m: &MReg, accepted: &[u32]) -> BTreeSet<u32> {
    let mut seen = BTreeSet::new();
    let mut q: Vec<u32> = accepted.to_vec();
    while let Some(x) = q.pop() {
        if seen.insert(x) {
            for r in m.types[x as usize].ty.refs() {
                if !seen.contains(&r) {
                    q.push(r)
                }
            }
        }
    }
    seen
}

/// the complete C10 oracle, shared with the fuzz target and with C01
pub fn check_retain(m: &MReg, accept: &dyn Fn(u32) -> bool) -> Result<(BTreeMap<u32, u32>, MReg), String> {
    let mut lib = to_lib(m);
    check_retain_on(&mut lib, m, accept)
}

/// the same oracle applied to an existing library object whose content is `m` (histories: the
/// object may have been decoded, or be the result of earlier retains)
pub fn check_retain_on(
    lib: &mut PortableRegistry,
    m: &MReg,
    accept: &dyn Fn(u32) -> bool,
) -> Result<(BTreeMap<u32, u32>, MReg), String> {
    wf_model(m).map_err(|e| format!("harness bug: input not well-formed: {e}"))?;
    let mut calls: Vec<u32> = Vec::new();
    let map = lib.retain(|id| {
        calls.push(id);
        accept(id)
    });
    let accepted: Vec<u32> = (0..m.types.len() as u32).filter(|i| accept(*i)).collect();
    let expect = reachable(m, &accepted);
    let keys: BTreeSet<u32> = map.keys().copied().collect();
    if keys != expect {
        return Err(format!(
            "retained key set {:?} differs from the reachable set {:?} (accepted {:?})",
            keys, expect, accepted
        ));
    }
    let vals: BTreeSet<u32> = map.values().copied().collect();
    if vals.len() != map.len() {
        return Err("returned map is not injective".into());
    }
    if vals != (0..map.len() as u32).collect::<BTreeSet<_>>() {
        return Err(format!("new ids {:?} are not exactly 0..{}", vals, map.len()));
    }
    if lib.types.len() != map.len() {
        return Err(format!("result has {} entries but the map has {}", lib.types.len(), map.len()));
    }
    wf_lib(lib).map_err(|e| format!("result of retain is not well-formed: {e}"))?;
    let out = from_lib(lib);
    for (old, new) in &map {
        let want = MPType {
            id: *new,
            ty: m.types[*old as usize].ty.map_refs(&mut |r| *map.get(&r).unwrap_or(&u32::MAX)),
        };
        if out.types[*new as usize] != want {
            return Err(format!(
                "entry {old} -> {new} is not the original with references renamed: got {:?}, want {:?}",
                out.types[*new as usize], want
            ));
        }
    }
    Ok((map, out))
}

pub fn c10_body(c: &C10Case, obs: &mut Obs) -> Result<(), String> {
    let m = &c.m;
    let mask = &c.mask;
    let outside = c.outside;
    let accept = |id: u32| mask.get(id as usize).copied().unwrap_or(outside);
    let (map, out) = check_retain(m, &accept)?;
    if outside {
        obs.class("predicate/accepts_foreign_ids");
    }
    let n = m.types.len();
    let kept_with_refs = map.keys().any(|k| !m.types[*k as usize].ty.refs().is_empty());
    if map.len() < n && kept_with_refs {
        obs.nontrivial(&(ref_enc(m), mask));
    }
    obs.class(if map.is_empty() { "kept/none" } else if map.len() == n { "kept/all" } else { "kept/some" });
    let accepted = (0..n as u32).filter(|i| accept(*i)).count();
    if map.len() > accepted {
        obs.class("pulled_in_by_reference");
    }
    // params-only edges
    for k in map.keys() {
        let t = &m.types[*k as usize].ty;
        let pr: BTreeSet<u32> = t.params.iter().filter_map(|p| p.ty).collect();
        let mut t2 = t.clone();
        t2.params.clear();
        let dr: BTreeSet<u32> = t2.refs().into_iter().collect();
        if pr.difference(&dr).next().is_some() {
            obs.class("edge_only_through_params");
            break;
        }
    }
    if m.types.iter().any(|t| t.ty.refs().contains(&t.id)) {
        obs.class("self_loop");
    }
    for t in &m.types {
        obs.class(&format!("def/{}", t.ty.def.kind()));
    }
    // how far (in reference steps, shortest path) the farthest retained entry is from the accepted ids
    {
        let mut level: BTreeMap<u32, u32> = (0..n as u32).filter(|i| accept(*i)).map(|i| (i, 0)).collect();
        let mut frontier: Vec<u32> = level.keys().copied().collect();
        let mut d = 0;
        while !frontier.is_empty() {
            d += 1;
            let mut next = vec![];
            for x in frontier {
                for r in m.types[x as usize].ty.refs() {
                    if !level.contains_key(&r) {
                        level.insert(r, d);
                        next.push(r);
                    }
                }
            }
            frontier = next;
        }
        let far = level.values().copied().max().unwrap_or(0);
        obs.class(match far {
            0..=7 => "distance_from_accepted/0-7",
            8..=63 => "distance_from_accepted/8-63",
            64..=127 => "distance_from_accepted/64-127",
            _ => "distance_from_accepted/128+",
        });
    }
    let _ = out;
    if obs.want_sample() {
        obs.sample(json!({"registry": sample_reg(m), "mask": mask, "map": map.iter().map(|(k, v)| (k.to_string(), *v)).collect::<BTreeMap<_, _>>()}));
    }
    Ok(())
}

fn c10_strat(max: usize) -> BoxedStrategy<C10Case> {
    c10_strat_on(reg_wf(max).boxed(), false)
}

/// registries with one reference path of 65-400 entries
fn c10_deep_strat() -> BoxedStrategy<C10Case> {
    c10_strat_on(prop_oneof![3 => reg_deep(140), 1 => reg_deep(400)].boxed(), true)
}

fn c10_strat_on(regs: BoxedStrategy<MReg>, sparse: bool) -> BoxedStrategy<C10Case> {
    regs
        .prop_flat_map(move |m| {
            let n = m.types.len();
            // deep registries: mostly one or two accepted ids, so that most of the path is
            // reached by reference only
            let (dense_w, sparse_w, single_w) = if sparse { (1, 4, 8) } else { (6, 2, 2) };
            let mask = prop_oneof![
                dense_w => vec(any::<bool>(), n..=n),
                sparse_w => vec(prop::bool::weighted(if sparse { 0.01 } else { 0.15 }), n..=n),
                1 => Just(vec![true; n]),
                1 => Just(vec![false; n]),
                single_w => (0..n).prop_map(move |i| (0..n).map(|k| k == i).collect::<Vec<bool>>()),
            ];
            (Just(m), mask, prop::bool::weighted(0.35))
        })
        .prop_map(|(m, mask, outside)| C10Case { m, mask, outside })
        .boxed()
}

/// A history: the registry is optionally passed through its SCALE or JSON form first, then
/// retained several times in a row (the result of a retain is a well-formed registry again), and
/// finally encoded; every step is judged by the single-step oracle against the model of the
/// previous step, on the *same* library object.
#[derive(Clone, Debug, serde::Serialize, serde::Deserialize)]
pub struct C10Chain {
    pub m: MReg,
    /// 0 = built directly, 1 = decoded from its SCALE encoding, 2 = deserialised from its JSON
    pub via: u8,
    /// per step: answers for ids 0.. (shorter registries use a prefix) and the answer for foreign ids
    pub steps: Vec<(Vec<bool>, bool)>,
}

pub fn c10_chain_body(c: &C10Chain, obs: &mut Obs) -> Result<(), String> {
    let mut model = c.m.clone();
    let mut lib = match c.via {
        1 => PortableRegistry::decode(&mut &ref_enc(&model)[..]).map_err(|e| format!("decoding a well-formed registry failed: {e:?}"))?,
        2 => serde_json::from_value::<PortableRegistry>(to_json_ref(&model))
            .map_err(|e| format!("deserialising the JSON of a well-formed registry failed: {e}"))?,
        _ => to_lib(&model),
    };
    obs.class(match c.via {
        1 => "via/scale_decode",
        2 => "via/json",
        _ => "via/direct",
    });
    let mut shrunk_twice = 0;
    let mut shrunk_before_last = false;
    for (k, (mask, outside)) in c.steps.iter().enumerate() {
        let accept = |id: u32| mask.get(id as usize).copied().unwrap_or(*outside);
        let before = model.types.len();
        let (map, out) = check_retain_on(&mut lib, &model, &accept).map_err(|e| format!("step {k}: {e}"))?;
        if map.len() < before && !map.is_empty() {
            shrunk_twice += 1;
            if k + 1 < c.steps.len() {
                shrunk_before_last = true;
            }
        }
        model = out;
    }
    let enc = lib.encode();
    if enc != ref_enc(&model) {
        return Err("the encoding after the history differs from the encoding of the expected registry".into());
    }
    if shrunk_twice >= 2 {
        obs.class("shrunk_at_least_twice");
    }
    // non-trivial: some step drops something and keeps something, and a further retain is then
    // applied to that result
    if shrunk_before_last {
        obs.nontrivial(&(ref_enc(&c.m), &c.steps, c.via));
    }
    obs.class(&format!("steps/{}", c.steps.len()));
    if obs.want_sample() {
        obs.sample(json!({"registry": sample_reg(&c.m), "via": c.via, "steps": c.steps.len(), "final_len": model.types.len()}));
    }
    Ok(())
}

fn c10_chain_strat(max: usize) -> BoxedStrategy<C10Chain> {
    reg_wf(max)
        .prop_flat_map(|m| {
            let n = m.types.len();
            let step = (
                prop_oneof![
                    4 => vec(prop::bool::weighted(0.6), n..=n),
                    2 => vec(any::<bool>(), n..=n),
                    1 => vec(prop::bool::weighted(0.15), n..=n),
                    1 => Just(vec![true; n]),
                ],
                prop::bool::weighted(0.3),
            );
            (Just(m), 0u8..3, vec(step, 2..=4))
        })
        .prop_map(|(m, via, steps)| C10Chain { m, via, steps })
        .boxed()
}

pub fn c10_subs() -> Vec<Box<dyn Sub>> {
    vec![
        Box::new(Check {
            name: "retain_chains",
            quick: 12_000,
            thorough: 400_000,
            strat: Box::new(|| c10_chain_strat(24)),
            body: Box::new(c10_chain_body),
            guard_death: true,
            max_shrink: 4096,
        }),
        Box::new(Check {
            name: "retain_small",
            quick: 40_000,
            thorough: 1_500_000,
            strat: Box::new(|| c10_strat(10)),
            body: Box::new(c10_body),
            guard_death: true,
            max_shrink: 4096,
        }),
        Box::new(Check {
            name: "retain_deep",
            quick: 1_500,
            thorough: 60_000,
            strat: Box::new(c10_deep_strat),
            body: Box::new(c10_body),
            guard_death: true,
            max_shrink: 1024,
        }),
        Box::new(Check {
            name: "retain_large",
            quick: 4_000,
            thorough: 100_000,
            strat: Box::new(|| c10_strat(64)),
            body: Box::new(c10_body),
            guard_death: true,
            max_shrink: 4096,
        }),
    ]
}
