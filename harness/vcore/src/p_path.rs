//! C18 — paths are non-empty sequences of valid Rust identifiers.

use crate::runner::*;
use proptest::collection::vec;
use proptest::prelude::*;
use scale_info::{IntoPortable, Path, PathError, Registry};
use serde::{Deserialize, Serialize};
use serde_json::json;
use std::collections::HashMap;
use std::sync::Mutex;

/// reference acceptor for `(r#)?[A-Za-z_][A-Za-z0-9_]*`, written as an explicit DFA
pub fn accepts(s: &str) -> bool {
    #[derive(Clone, Copy, PartialEq)]
    enum St {
        Start,
        SawR,     // read "r": a valid identifier so far, may become a raw prefix
        RawStart, // read "r#": need an identifier head
        Body,     // inside a plain identifier (after a possible raw prefix)
        Dead,
    }
    let head = |c: char| c == '_' || c.is_ascii_alphabetic();
    let tail = |c: char| c == '_' || c.is_ascii_alphanumeric();
    let mut st = St::Start;
    for c in s.chars() {
        st = match st {
            St::Start => {
                if c == 'r' {
                    St::SawR
                } else if head(c) {
                    St::Body
                } else {
                    St::Dead
                }
            }
            St::SawR => {
                if c == '#' {
                    St::RawStart
                } else if tail(c) {
                    St::Body
                } else {
                    St::Dead
                }
            }
            St::RawStart => {
                if head(c) {
                    St::Body
                } else {
                    St::Dead
                }
            }
            St::Body => {
                if tail(c) {
                    St::Body
                } else {
                    St::Dead
                }
            }
            St::Dead => St::Dead,
        };
        if st == St::Dead {
            return false;
        }
    }
    matches!(st, St::SawR | St::Body)
}

/// signature of the string classes behind known findings
pub fn sig_of(s: &str) -> &'static str {
    if s.starts_with("r#r#") {
        "repeated-raw-prefix"
    } else {
        "identifier-language"
    }
}

static ARENA: Mutex<Option<HashMap<String, &'static str>>> = Mutex::new(None);

/// intern a string as `&'static str` (one leak per distinct string)
pub fn leak(s: &str) -> &'static str {
    let mut g = ARENA.lock().unwrap();
    let m = g.get_or_insert_with(HashMap::new);
    if let Some(r) = m.get(s) {
        return r;
    }
    let l: &'static str = Box::leak(s.to_string().into_boxed_str());
    m.insert(s.to_string(), l);
    l
}

pub const ALPHABET: [char; 12] = ['r', '#', 'a', 'Z', '_', '0', '9', ' ', ':', '-', 'é', '\0'];

pub struct ExhaustiveResult {
    pub evaluated: u64,
    pub accepted: u64,
    pub nontrivial: u64,
    pub known: std::collections::BTreeMap<String, u64>,
    pub failure: Option<(String, String)>, // (string, reason)
    pub samples: Vec<serde_json::Value>,
}

/// every string over ALPHABET of length 0..=max_len, as a single-segment path
pub fn exhaustive(max_len: usize, ctx: &Ctx) -> ExhaustiveResult {
    // split by first two characters over threads
    let jobs: Vec<Vec<char>> = {
        let mut v = vec![vec![]];
        for a in ALPHABET {
            v.push(vec![a]);
            if max_len >= 2 {
                for b in ALPHABET {
                    v.push(vec![a, b]);
                }
            }
        }
        v
    };
    let next = std::sync::atomic::AtomicUsize::new(0);
    let results: Mutex<Vec<ExhaustiveResult>> = Mutex::new(vec![]);
    std::thread::scope(|s| {
        for _ in 0..ctx.jobs.max(1) {
            s.spawn(|| {
                let mut res = ExhaustiveResult { evaluated: 0, accepted: 0, nontrivial: 0, known: Default::default(), failure: None, samples: vec![] };
                loop {
                    let j = next.fetch_add(1, std::sync::atomic::Ordering::SeqCst);
                    if j >= jobs.len() {
                        break;
                    }
                    let prefix = &jobs[j];
                    // prefixes of length < 2 stand for themselves only (longer strings are covered
                    // by the two-character prefixes)
                    let extend = prefix.len() == 2 && max_len > 2;
                    let mut stack: Vec<Vec<char>> = vec![prefix.clone()];
                    // build all strings of this job in one buffer, leaked for the duration of the job
                    let mut buf = String::new();
                    let mut spans: Vec<(usize, usize)> = vec![];
                    while let Some(cur) = stack.pop() {
                        let st = buf.len();
                        buf.extend(cur.iter());
                        spans.push((st, buf.len()));
                        if extend && cur.len() < max_len {
                            for c in ALPHABET {
                                let mut n = cur.clone();
                                n.push(c);
                                stack.push(n);
                            }
                        }
                    }
                    let leaked: &'static mut str = Box::leak(buf.into_boxed_str());
                    let leaked_ptr: *mut str = leaked;
                    let stat: &'static str = unsafe { &*leaked_ptr };
                    for (a, b) in spans {
                        let seg: &'static str = &stat[a..b];
                        res.evaluated += 1;
                        let want = accepts(seg);
                        let got = Path::from_segments([seg]);
                        let ok = match (&got, want) {
                            (Ok(p), true) => p.segments == vec![seg],
                            (Err(PathError::InvalidIdentifier { segment: 0 }), false) => true,
                            _ => false,
                        };
                        if want {
                            res.accepted += 1;
                        }
                        if seg.chars().count() >= 2 {
                            res.nontrivial += 1;
                        }
                        if res.samples.len() < 4 && (res.evaluated % 9973 == 1) {
                            res.samples.push(json!({"segment": seg, "accepted_by_reference": want}));
                        }
                        if !ok {
                            let sig = sig_of(seg);
                            if ctx.known.is_open("C18", sig).is_some() {
                                *res.known.entry(sig.to_string()).or_default() += 1;
                            } else if res.failure.as_ref().map_or(true, |(s, _)| s.len() > seg.len()) {
                                res.failure = Some((
                                    seg.to_string(),
                                    format!("[sig:{sig}] from_segments([{seg:?}]) = {got:?}, reference grammar says accept={want}"),
                                ));
                            }
                        }
                    }
                    // give the buffer back (no Path outlives this point)
                    unsafe {
                        drop(Box::from_raw(leaked_ptr));
                    }
                }
                results.lock().unwrap().push(res);
            });
        }
    });
    let mut total = ExhaustiveResult { evaluated: 0, accepted: 0, nontrivial: 0, known: Default::default(), failure: None, samples: vec![] };
    for r in results.into_inner().unwrap() {
        total.evaluated += r.evaluated;
        total.accepted += r.accepted;
        total.nontrivial += r.nontrivial;
        for (k, v) in r.known {
            *total.known.entry(k).or_default() += v;
        }
        if let Some(f) = r.failure {
            if total.failure.as_ref().map_or(true, |(s, _)| (s.len(), s.as_str()) > (f.0.len(), f.0.as_str())) {
                total.failure = Some(f);
            }
        }
        for s in r.samples {
            if total.samples.len() < 4 {
                total.samples.push(s)
            }
        }
    }
    total
}

/// every string over the full ASCII range (all 128 bytes) of length 0..=3, plain and behind a raw
/// prefix: no character class of the identifier grammar can be mis-drawn without being seen here
pub fn exhaustive_ascii(ctx: &Ctx) -> ExhaustiveResult {
    let next = std::sync::atomic::AtomicUsize::new(0);
    let results: Mutex<Vec<ExhaustiveResult>> = Mutex::new(vec![]);
    std::thread::scope(|s| {
        for _ in 0..ctx.jobs.max(1) {
            s.spawn(|| {
                let mut res = ExhaustiveResult { evaluated: 0, accepted: 0, nontrivial: 0, known: Default::default(), failure: None, samples: vec![] };
                loop {
                    // one job per first byte (and job 128 for the strings shorter than that)
                    let j = next.fetch_add(1, std::sync::atomic::Ordering::SeqCst);
                    if j > 128 {
                        break;
                    }
                    let mut buf = String::new();
                    let mut spans: Vec<(usize, usize)> = vec![];
                    let mut push = |bytes: &[u8], buf: &mut String, spans: &mut Vec<(usize, usize)>| {
                        for raw in [false, true] {
                            let st = buf.len();
                            if raw {
                                buf.push_str("r#");
                            }
                            for b in bytes {
                                buf.push(*b as char);
                            }
                            spans.push((st, buf.len()));
                        }
                    };
                    if j == 128 {
                        push(&[], &mut buf, &mut spans);
                    } else {
                        let a = j as u8;
                        push(&[a], &mut buf, &mut spans);
                        for b in 0u8..128 {
                            push(&[a, b], &mut buf, &mut spans);
                            for c in 0u8..128 {
                                push(&[a, b, c], &mut buf, &mut spans);
                            }
                        }
                    }
                    let leaked: &'static mut str = Box::leak(buf.into_boxed_str());
                    let leaked_ptr: *mut str = leaked;
                    let stat: &'static str = unsafe { &*leaked_ptr };
                    for (a, b) in spans {
                        let seg: &'static str = &stat[a..b];
                        res.evaluated += 1;
                        let want = accepts(seg);
                        let got = Path::from_segments([seg]);
                        let ok = match (&got, want) {
                            (Ok(p), true) => p.segments == vec![seg],
                            (Err(PathError::InvalidIdentifier { segment: 0 }), false) => true,
                            _ => false,
                        };
                        if want {
                            res.accepted += 1;
                        }
                        if seg.len() >= 2 {
                            res.nontrivial += 1;
                        }
                        if res.samples.len() < 2 && res.evaluated % 40009 == 7 {
                            res.samples.push(json!({"segment": seg, "accepted_by_reference": want}));
                        }
                        if !ok {
                            let sig = sig_of(seg);
                            if ctx.known.is_open("C18", sig).is_some() {
                                *res.known.entry(sig.to_string()).or_default() += 1;
                            } else if res.failure.as_ref().map_or(true, |(s, _)| s.len() > seg.len()) {
                                res.failure = Some((seg.to_string(), format!("[sig:{sig}] from_segments([{seg:?}]) = {got:?}, reference grammar says accept={want}")));
                            }
                        }
                    }
                    unsafe {
                        drop(Box::from_raw(leaked_ptr));
                    }
                }
                results.lock().unwrap().push(res);
            });
        }
    });
    let mut total = ExhaustiveResult { evaluated: 0, accepted: 0, nontrivial: 0, known: Default::default(), failure: None, samples: vec![] };
    for r in results.into_inner().unwrap() {
        total.evaluated += r.evaluated;
        total.accepted += r.accepted;
        total.nontrivial += r.nontrivial;
        for (k, v) in r.known {
            *total.known.entry(k).or_default() += v;
        }
        if let Some(f) = r.failure {
            if total.failure.as_ref().map_or(true, |(s, _)| (s.len(), s.as_str()) > (f.0.len(), f.0.as_str())) {
                total.failure = Some(f);
            }
        }
        for s in r.samples {
            if total.samples.len() < 3 {
                total.samples.push(s)
            }
        }
    }
    total
}

// --------------------------------------------------------------------------------- proptest part

fn seg_valid() -> impl Strategy<Value = String> {
    prop_oneof![
        6 => "[A-Za-z_][A-Za-z0-9_]{0,6}",
        2 => "r#[A-Za-z_][A-Za-z0-9_]{0,4}",
        1 => Just("r".to_string()),
        1 => Just("_".to_string()),
        1 => Just("r#_".to_string()),
        1 => "[A-Za-z_][A-Za-z0-9_]{30,70}",
        1 => "[A-Za-z_][A-Za-z0-9_]{250,270}",
        1 => "r#[A-Za-z_][A-Za-z0-9_]{60,70}",
    ]
}

fn seg_near_miss() -> impl Strategy<Value = String> {
    prop_oneof![
        2 => Just(String::new()),
        2 => "[0-9][A-Za-z0-9_]{0,4}",
        2 => "[A-Za-z_]{1,3}[-+ .#!][A-Za-z_]{0,3}",
        2 => "[A-Za-z_]{1,3}[\\x20-\\x2f\\x3a-\\x40\\x5b-\\x5e\\x60\\x7b-\\x7f][A-Za-z_0-9]{0,3}",
        1 => "[\\x20-\\x2f\\x3a-\\x40\\x5b-\\x5e\\x60\\x7b-\\x7f][A-Za-z_]{1,3}",
        1 => Just("r#".to_string()),
        1 => Just("r#r#a".to_string()),
        1 => Just("r#1".to_string()),
        1 => Just("#a".to_string()),
        1 => Just("R#a".to_string()),
        1 => Just("a#".to_string()),
        2 => "[a-z]{0,2}[éßπ\u{0}\u{7f}][a-z]{0,2}",
        1 => "[a-z]{1,2}:[a-z]{0,2}",
        1 => "[a-z]{1,2}:[a-z]{1,2}",
        1 => "[A-Za-z_][A-Za-z0-9_]{120,300}-",
        1 => " [a-z]{1,3}",
        1 => "[a-z]{1,3} ",
    ]
}

fn seg() -> impl Strategy<Value = String> {
    prop_oneof![4 => seg_valid(), 1 => seg_near_miss()]
}

#[derive(Clone, Debug, Serialize, Deserialize)]
pub struct SegCase {
    pub segs: Vec<String>,
}

pub fn segs_body(c: &SegCase, obs: &mut Obs) -> Result<(), String> {
    let segs: Vec<&'static str> = c.segs.iter().map(|s| leak(s)).collect();
    let got = Path::from_segments(segs.clone());
    let first_bad = segs.iter().position(|s| !accepts(s));
    let want: Result<(), PathError> = if segs.is_empty() {
        Err(PathError::MissingSegments)
    } else if let Some(i) = first_bad {
        Err(PathError::InvalidIdentifier { segment: i })
    } else {
        Ok(())
    };
    let agree = match (&got, &want) {
        (Ok(_), Ok(())) => true,
        (Err(a), Err(b)) => a == b,
        _ => false,
    };
    if !agree {
        let sig = first_bad.map(|i| sig_of(segs[i])).unwrap_or("identifier-language");
        // a different known-class string earlier in the list can shift the reported index
        let sig = if segs.iter().any(|s| sig_of(s) == "repeated-raw-prefix") { "repeated-raw-prefix" } else { sig };
        return obs.fail_sig(sig, format!("from_segments({segs:?}) = {got:?}, reference says {want:?}"));
    }
    if let Ok(p) = &got {
        if p.segments != segs {
            return Err(format!("segments not kept in order: {:?} vs {:?}", p.segments, segs));
        }
        if p.ident() != segs.last().copied() {
            return Err(format!("ident() = {:?}, last segment is {:?}", p.ident(), segs.last()));
        }
        if p.namespace() != &segs[..segs.len() - 1] {
            return Err(format!("namespace() = {:?}", p.namespace()));
        }
        if p.is_empty() {
            return Err("constructed path reports is_empty()".into());
        }
        let portable = p.clone().into_portable(&mut Registry::new());
        let shown = portable.to_string();
        if shown != segs.join("::") {
            return Err(format!("display form {shown:?} is not the segments joined by ::"));
        }
        if portable.segments.iter().map(|s| s.as_str()).collect::<Vec<_>>() != segs {
            return Err("portable path lost or reordered segments".into());
        }
        if portable.ident().as_deref() != segs.last().copied() {
            return Err("portable ident() is not the last segment".into());
        }
        if portable.namespace().iter().map(|s| s.as_str()).collect::<Vec<_>>() != segs[..segs.len() - 1] {
            return Err("portable namespace() is not the leading segments".into());
        }
    }
    if segs.len() >= 2 {
        obs.nontrivial(&c.segs);
    }
    obs.class(match &want {
        Ok(()) => "ok",
        Err(PathError::MissingSegments) => "missing",
        Err(PathError::InvalidIdentifier { .. }) => "invalid",
    });
    if obs.want_sample() {
        obs.sample(json!({"segments": c.segs, "expected": format!("{want:?}")}));
    }
    Ok(())
}

#[derive(Clone, Debug, Serialize, Deserialize)]
pub struct NewCase {
    pub ident: String,
    pub module: Vec<String>,
    /// (search, replace); search keys are distinct and no replacement is another rule's key
    pub table: Vec<(String, String)>,
    pub use_replace: bool,
}

pub fn new_body(c: &NewCase, obs: &mut Obs) -> Result<(), String> {
    // module path segments must not contain ':' so that splitting on "::" is unambiguous, and the
    // module path must not be empty (the statement does not say what an empty module path means)
    // a segment may contain a single inner ':' (then it is simply not an identifier); anything that
    // could form "::" together with the separator would make the split ambiguous and is left out
    let ambiguous = |s: &String| s.contains("::") || s.starts_with(':') || s.ends_with(':');
    // (the identifier argument is one segment whatever it contains: "a::B" is simply not an identifier)
    if c.module.is_empty() || c.module.iter().any(ambiguous) {
        return Ok(());
    }
    if c.ident.contains("::") {
        obs.class("ident_argument_contains_separator");
    }
    let module_path = leak(&c.module.join("::"));
    let ident = leak(&c.ident);
    let table: Vec<(&'static str, &'static str)> = c.table.iter().map(|(a, b)| (leak(a), leak(b))).collect();
    let mut segs: Vec<&str> = c.module.iter().map(|s| s.as_str()).collect();
    segs.push(&c.ident);
    let replaced: Vec<&str> = if c.use_replace {
        segs.iter()
            .map(|s| table.iter().find(|(k, _)| k == s).map(|(_, v)| *v).unwrap_or(s))
            .collect()
    } else {
        segs.clone()
    };
    let want_ok = replaced.iter().all(|s| accepts(s));
    let got = std::panic::catch_unwind(|| {
        if c.use_replace {
            Path::new_with_replace(ident, module_path, &table)
        } else {
            Path::new(ident, module_path)
        }
    });
    match (&got, want_ok) {
        (Ok(p), true) => {
            if p.segments != replaced {
                return Err(format!("segments {:?}, expected {:?}", p.segments, replaced));
            }
            if p.ident() != replaced.last().copied() || p.namespace() != &replaced[..replaced.len() - 1] {
                return Err("ident()/namespace() wrong".into());
            }
        }
        (Err(_), false) => {}
        (Ok(p), false) => {
            let sig = if replaced.iter().any(|s| sig_of(s) == "repeated-raw-prefix") { "repeated-raw-prefix" } else { "identifier-language" };
            return obs.fail_sig(sig, format!("Path::new accepted invalid segments {:?} -> {:?}", replaced, p.segments));
        }
        (Err(_), true) => {
            return Err(format!("Path::new panicked on valid segments {replaced:?}"));
        }
    }
    if c.use_replace && replaced != segs {
        obs.class("replacement_applied");
    }
    obs.class(if want_ok { "ok" } else { "panics" });
    if segs.len() >= 2 {
        obs.nontrivial(&(&c.ident, &c.module, &c.table, c.use_replace));
    }
    if obs.want_sample() {
        obs.sample(json!({"ident": c.ident, "module_path": module_path, "table": c.table, "use_replace": c.use_replace, "expected_ok": want_ok}));
    }
    Ok(())
}

fn table_strat() -> impl Strategy<Value = Vec<(String, String)>> {
    (vec((seg(), seg()), 0..4), any::<u8>()).prop_map(|(mut t, chain)| {
        // distinct search keys (which of two rules with one key wins is not documented). A
        // replacement MAY equal another rule's search key: the documentation says every search
        // item *that appears in the module path* is replaced, i.e. one pass over the original
        // segments, so rules do not chain.
        let mut out: Vec<(String, String)> = vec![];
        for (k, v) in t.drain(..) {
            if out.iter().any(|(k2, _)| *k2 == k) {
                continue;
            }
            out.push((k, v));
        }
        // often make the table chain-capable on purpose: rule i's replacement = rule j's key
        if out.len() >= 2 && chain % 2 == 0 {
            let j = (chain as usize / 2) % out.len();
            let i = (j + 1) % out.len();
            let key_j = out[j].0.clone();
            if out[i].0 != key_j {
                out[i].1 = key_j;
            }
        }
        out
    })
}

pub fn c18_subs() -> Vec<Box<dyn Sub>> {
    vec![
        Box::new(Check {
            name: "from_segments",
            quick: 60_000,
            thorough: 1_000_000,
            strat: Box::new(|| vec(seg(), 0..7).prop_map(|segs| SegCase { segs }).boxed()),
            body: Box::new(segs_body),
            guard_death: false,
            max_shrink: 4096,
        }),
        Box::new(Check {
            name: "path_new",
            quick: 30_000,
            thorough: 500_000,
            strat: Box::new(|| {
                (prop_oneof![12 => seg(), 1 => (seg(), seg()).prop_map(|(a, b)| format!("{a}::{b}")), 1 => seg().prop_map(|a| format!("{a}::"))], vec(seg(), 1..5), table_strat(), any::<bool>())
                    .prop_flat_map(|(ident, module, table, use_replace)| {
                        // bias: make some table keys hit actual segments
                        let all: Vec<String> = module.iter().cloned().chain(std::iter::once(ident.clone())).collect();
                        (Just(ident), Just(module), Just(table), Just(use_replace), prop::sample::select(all), seg(), any::<bool>())
                    })
                    .prop_map(|(ident, module, mut table, use_replace, hit, repl, add)| {
                        if add && !table.iter().any(|(k, _)| *k == hit) && repl != hit {
                            // (the new rule may feed an existing one, or be fed by one: no chaining expected)
                            table.push((hit, repl));
                        }
                        NewCase { ident, module, table, use_replace }
                    })
                    .boxed()
            }),
            body: Box::new(new_body),
            guard_death: false,
            max_shrink: 4096,
        }),
    ]
}
