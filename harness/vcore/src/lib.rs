pub mod alloc;
pub mod cli;
pub mod fuzz_entry;
pub mod genreg;
pub mod model;
pub mod p_decode;
pub mod p_hist;
pub mod p_list;
pub mod p_path;
pub mod p_reg;
pub mod p_schema;
pub mod props;
pub mod props2;
pub mod refcodec;
pub mod refjson;
pub mod runner;
pub mod vtypes;

#[global_allocator]
static GLOBAL: alloc::Counting = alloc::Counting;
