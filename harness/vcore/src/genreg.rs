//! G_reg — proptest generators for registry models (wild and well-formed).

use crate::model::*;
use proptest::collection::vec;
use proptest::prelude::*;

/// ids in all four compact size classes and on their boundaries
pub fn id_wild() -> BoxedStrategy<u32> {
    prop_oneof![
        8 => 0u32..8,
        2 => 0u32..=63,
        2 => 64u32..=16383,
        1 => 16384u32..=0x3fff_ffff,
        1 => 0x4000_0000u32..=u32::MAX,
        2 => prop::sample::select(vec![0u32, 1, 63, 64, 16383, 16384, 0x3fff_ffff, 0x4000_0000, u32::MAX - 1, u32::MAX]),
    ]
    .boxed()
}

pub fn ident() -> impl Strategy<Value = String> {
    "[A-Za-z_][A-Za-z0-9_]{0,7}"
}

fn uni_string(max: usize) -> impl Strategy<Value = String> {
    vec(any::<char>(), 0..=max).prop_map(|v| v.into_iter().collect())
}

/// arbitrary strings: identifiers, empty, arbitrary Unicode incl. control characters, and
/// lengths straddling 64 bytes and (rarely) 16384 bytes
pub fn string() -> impl Strategy<Value = String> {
    prop_oneof![
        10 => ident(),
        3 => Just(String::new()),
        6 => uni_string(6),
        2 => uni_string(40),
        1 => (60usize..70).prop_map(|n| "x".repeat(n)),
        1 => (20usize..24).prop_map(|n| "é\u{10348}".repeat(n / 2)),
        1 => prop::sample::select(vec!["\"".to_string(), "\\".to_string(), "\u{0}".to_string(), "\u{7f}".to_string(),
                "\u{2028}".to_string(), "\u{feff}".to_string(), "\u{1f600}".to_string(), "\u{d7ff}\u{e000}".to_string(), "\n\t\r".to_string(), " leading".to_string()]),
    ]
}

/// rarely: a very long string (>= 16384 bytes: third compact class for the length prefix)
pub fn string_rare_huge() -> impl Strategy<Value = String> {
    prop_oneof![
        400 => string(),
        1 => (16380usize..16390).prop_map(|n| "y".repeat(n)),
    ]
}

pub fn docs() -> impl Strategy<Value = Vec<String>> {
    prop_oneof![
        5 => Just(vec![]),
        3 => vec(string(), 1..3),
        1 => vec(string(), 3..6),
        1 => Just(vec![String::new()]),
    ]
}

pub fn opt_string() -> impl Strategy<Value = Option<String>> {
    prop_oneof![
        3 => Just(None),
        1 => Just(Some(String::new())),
        4 => string_rare_huge().prop_map(Some),
    ]
}

pub fn prim() -> impl Strategy<Value = MPrim> {
    prop::sample::select(ALL_PRIMS.to_vec())
}

pub fn field(id: BoxedStrategy<u32>) -> impl Strategy<Value = MField> {
    (opt_string(), id, opt_string(), docs()).prop_map(|(name, ty, type_name, docs)| MField {
        name,
        ty,
        type_name,
        docs,
    })
}

pub fn fields(id: BoxedStrategy<u32>) -> impl Strategy<Value = Vec<MField>> {
    prop_oneof![
        2 => Just(vec![]),
        8 => vec(field(id.clone()), 1..4),
        1 => vec(field(id.clone()), 4..9),
        // straddle the one-byte compact length boundary (63/64 elements), cheap members
        1 => (id, 60usize..68).prop_map(|(i, n)| (0..n).map(|k| MField { name: None, ty: i.wrapping_add(k as u32 % 3), type_name: None, docs: vec![] }).collect()),
    ]
}

pub fn variant(id: BoxedStrategy<u32>) -> impl Strategy<Value = MVariant> {
    (string(), fields(id), any::<u8>(), docs()).prop_map(|(name, fields, index, docs)| MVariant {
        name,
        fields,
        index,
        docs,
    })
}

pub fn def(id: BoxedStrategy<u32>) -> impl Strategy<Value = MDef> {
    prop_oneof![
        4 => fields(id.clone()).prop_map(MDef::Composite),
        4 => prop_oneof![
                1 => Just(vec![]),
                6 => vec(variant(id.clone()), 1..4),
                1 => vec(variant(id.clone()), 4..8),
            ].prop_map(MDef::Variant),
        2 => id.clone().prop_map(MDef::Sequence),
        2 => (prop_oneof![
                4 => 0u32..40,
                1 => prop::sample::select(vec![0u32, 1, 63, 64, 255, 256, 65535, 65536, 16383, 16384, 0x3fff_ffff, 0x4000_0000, u32::MAX]),
                1 => any::<u32>(),
             ], id.clone()).prop_map(|(len, ty)| MDef::Array { len, ty }),
        2 => prop_oneof![
                1 => Just(vec![]),
                5 => vec(id.clone(), 1..5),
                1 => vec(id.clone(), 60..68),
            ].prop_map(MDef::Tuple),
        3 => prim().prop_map(MDef::Primitive),
        2 => id.clone().prop_map(MDef::Compact),
        2 => (id.clone(), id).prop_map(|(store, order)| MDef::BitSequence { store, order }),
    ]
}

pub fn path() -> impl Strategy<Value = Vec<String>> {
    prop_oneof![
        3 => Just(vec![]),
        6 => vec(ident(), 1..4),
        2 => vec(string(), 1..4),
    ]
}

pub fn params(id: BoxedStrategy<u32>) -> impl Strategy<Value = Vec<MParam>> {
    let p = (string(), prop_oneof![1 => Just(None), 2 => id.prop_map(Some)])
        .prop_map(|(name, ty)| MParam { name, ty })
        .boxed();
    prop_oneof![
        4 => Just(vec![]),
        5 => vec(p.clone(), 1..3),
        1 => vec(p, 3..6),
    ]
}

pub fn mtype(id: BoxedStrategy<u32>) -> impl Strategy<Value = MType> {
    (path(), params(id.clone()), def(id), docs()).prop_map(|(path, params, def, docs)| MType {
        path,
        params,
        def,
        docs,
    })
}

/// wild registries: ids and references are arbitrary u32
pub fn reg_wild() -> impl Strategy<Value = MReg> {
    let entry = (id_wild(), mtype(id_wild())).prop_map(|(id, ty)| MPType { id, ty }).boxed();
    prop_oneof![
        1 => Just(vec![]),
        10 => vec(entry.clone(), 1..5),
        2 => vec(entry.clone(), 5..12),
        // straddle 63/64 entries with small entries
        1 => (60usize..68, id_wild()).prop_map(|(n, i)| (0..n).map(|k| MPType { id: i.wrapping_add(k as u32), ty: MType { path: vec![], params: vec![], def: MDef::Primitive(ALL_PRIMS[k % 15]), docs: vec![] } }).collect()),
    ]
    .prop_map(|types| MReg { types })
}

/// large registries of tiny entries: sizes on both sides of 64, 4096 and 16384 entries and a few
/// arbitrary ones up to 20000 (length prefixes in the second and third compact class)
pub fn reg_large() -> impl Strategy<Value = MReg> {
    (
        prop_oneof![
            3 => prop::sample::select(vec![63usize, 64, 65, 255, 256, 257, 1023, 1024, 4095, 4096, 4097, 8191, 8192, 8193, 16383, 16384, 16385]),
            2 => 66usize..2000,
            1 => 2000usize..20000,
        ],
        any::<bool>(),
        0u32..3,
        string(),
    )
        .prop_map(|(n, dense, off, s)| MReg {
            types: (0..n)
                .map(|k| MPType {
                    id: if dense { k as u32 } else { (k as u32).wrapping_mul(3).wrapping_add(off) },
                    ty: MType {
                        path: if k % 97 == 5 { vec![s.clone()] } else { vec![] },
                        params: vec![],
                        def: match k % 4 {
                            0 => MDef::Primitive(ALL_PRIMS[k % 15]),
                            1 => MDef::Sequence(if dense { (k as u32).saturating_sub(1) } else { k as u32 }),
                            2 => MDef::Tuple(vec![]),
                            _ => MDef::Compact(0),
                        },
                        docs: vec![],
                    },
                })
                .collect(),
        })
}

/// well-formed registries: id == index, references < n, with cycles, self loops and nodes that
/// are reachable only through params (all arise naturally from uniformly random references)
pub fn reg_wf(max: usize) -> impl Strategy<Value = MReg> {
    (1usize..=max)
        .prop_flat_map(|n| {
            let id = (0u32..(n as u32)).boxed();
            vec(mtype(id), n..=n)
        })
        .prop_map(|tys| {
            let n = tys.len() as u32;
            MReg {
                types: tys
                    .into_iter()
                    .enumerate()
                    // (some member generators offset the drawn id; fold back into range)
                    .map(|(i, ty)| MPType { id: i as u32, ty: ty.map_refs(&mut |r| r % n) })
                    .collect(),
            }
        })
}

/// deep well-formed registries: one reference path of 65..=`max_depth` entries (every link a
/// different reference position: element, member, field, parameter, compact, bit store/order),
/// stored under shuffled ids, with a few extra random references (cycles, shortcuts) and some
/// unrelated entries. A recursion-depth limit, a work list that is drained once, or an id cache of
/// fixed size in a traversal has nothing to show on the shallow graphs `reg_wf` draws.
pub fn reg_deep(max_depth: usize) -> impl Strategy<Value = MReg> {
    (65usize..=max_depth, 0usize..6)
        .prop_flat_map(|(depth, extra)| {
            let n = depth + extra;
            (
                Just(depth),
                Just(n),
                vec(any::<u16>(), n..=n), // shuffle keys
                vec((0u8..9, any::<u16>(), prop::bool::weighted(0.04)), n..=n), // link kind, extra reference, use it (rarely: shortcuts make every path short)
                vec(any::<u8>(), n..=n),
            )
        })
        .prop_map(|(depth, n, keys, kinds, salt)| {
            // position in the chain -> id (a permutation of 0..n)
            let mut order: Vec<usize> = (0..n).collect();
            order.sort_by_key(|i| (keys[*i], *i));
            let id_of = |pos: usize| order[pos] as u32;
            let mut types: Vec<Option<MPType>> = vec![None; n];
            for pos in 0..n {
                let (kind, extra, use_extra) = kinds[pos];
                let next = if pos + 1 < depth { Some(id_of(pos + 1)) } else { None };
                let other = id_of(crate::runner::pick(extra, n));
                let fld = |ty: u32, named: bool| MField {
                    name: if named { Some(format!("f{}", salt[pos])) } else { None },
                    ty,
                    type_name: None,
                    docs: vec![],
                };
                let mut params = vec![];
                let def = match next {
                    None => MDef::Primitive(ALL_PRIMS[salt[pos] as usize % 15]),
                    Some(nx) => match kind {
                        0 => MDef::Sequence(nx),
                        1 => MDef::Array { len: salt[pos] as u32, ty: nx },
                        2 => MDef::Tuple(if use_extra { vec![other, nx] } else { vec![nx] }),
                        3 => MDef::Compact(nx),
                        4 => MDef::Composite(if use_extra { vec![fld(nx, true), fld(other, true)] } else { vec![fld(nx, false)] }),
                        5 => MDef::Variant(vec![
                            MVariant { name: "A".into(), fields: vec![], index: 0, docs: vec![] },
                            MVariant { name: "B".into(), fields: vec![fld(nx, false)], index: salt[pos], docs: vec![] },
                        ]),
                        6 => MDef::BitSequence { store: nx, order: if use_extra { other } else { nx } },
                        7 => MDef::BitSequence { store: if use_extra { other } else { nx }, order: nx },
                        _ => {
                            // reachable through a type parameter only
                            params.push(MParam { name: "T".into(), ty: Some(nx) });
                            MDef::Composite(vec![])
                        }
                    },
                };
                let id = id_of(pos);
                types[id as usize] = Some(MPType {
                    id,
                    ty: MType {
                        path: if kind >= 4 { vec![format!("T{pos}")] } else { vec![] },
                        params,
                        def,
                        docs: vec![],
                    },
                });
            }
            MReg { types: types.into_iter().map(|t| t.expect("permutation")).collect() }
        })
}

/// single-point mutations used for injectivity pairs (C07): returns a registry that differs
/// from `m` (or None when the mutation does not apply)
pub fn mutate(m: &MReg, which: u16, sel: u16) -> Option<MReg> {
    use crate::runner::pick;
    let mut r = m.clone();
    if r.types.is_empty() {
        r.types.push(MPType {
            id: 0,
            ty: MType {
                path: vec![],
                params: vec![],
                def: MDef::Tuple(vec![]),
                docs: vec![],
            },
        });
        return Some(r);
    }
    let ti = pick(sel, r.types.len());
    let t = &mut r.types[ti];
    let k = which % 12;
    match k {
        0 => {
            // None <-> Some("") on a field name / type name
            if let MDef::Composite(fs) = &mut t.ty.def {
                let f = fs.first_mut()?;
                f.name = match &f.name {
                    None => Some(String::new()),
                    Some(s) if s.is_empty() => None,
                    Some(_) => Some(String::new()),
                };
            } else {
                return None;
            }
        }
        1 => {
            // [] <-> [""] docs
            if t.ty.docs.is_empty() {
                t.ty.docs.push(String::new())
            } else {
                t.ty.docs.clear()
            }
        }
        2 => {
            // split / merge adjacent strings in the path
            if t.ty.path.len() >= 2 {
                let b = t.ty.path.remove(1);
                t.ty.path[0].push_str(&b);
            } else if t.ty.path.len() == 1 && t.ty.path[0].chars().count() >= 2 {
                let s = t.ty.path[0].clone();
                let cut = s.char_indices().nth(1).unwrap().0;
                t.ty.path = vec![s[..cut].to_string(), s[cut..].to_string()];
            } else {
                return None;
            }
        }
        3 => {
            // move a doc line between neighbours (type docs -> first field docs)
            if let MDef::Composite(fs) = &mut t.ty.def {
                let f = fs.first_mut()?;
                if let Some(d) = t.ty.docs.pop() {
                    f.docs.push(d)
                } else if let Some(d) = f.docs.pop() {
                    t.ty.docs.push(d)
                } else {
                    return None;
                }
            } else {
                return None;
            }
        }
        4 => t.id = t.id.wrapping_add(1),
        5 => t.id = t.id.wrapping_sub(1),
        6 => {
            // swap two members
            match &mut t.ty.def {
                MDef::Composite(fs) if fs.len() >= 2 && fs[0] != fs[1] => fs.swap(0, 1),
                MDef::Variant(vs) if vs.len() >= 2 && vs[0] != vs[1] => vs.swap(0, 1),
                MDef::Tuple(ts) if ts.len() >= 2 && ts[0] != ts[1] => ts.swap(0, 1),
                MDef::BitSequence { store, order } if store != order => std::mem::swap(store, order),
                _ => return None,
            }
        }
        7 => {
            // param type None <-> Some(0)
            let p = t.ty.params.first_mut()?;
            p.ty = match p.ty {
                None => Some(0),
                Some(0) => None,
                Some(_) => Some(0),
            };
        }
        8 => {
            // +-1 on a reference
            let mut done = false;
            let nt = t.ty.map_refs(&mut |x| {
                if !done {
                    done = true;
                    x.wrapping_add(1)
                } else {
                    x
                }
            });
            if !done {
                return None;
            }
            t.ty = nt;
        }
        9 => {
            // change def kind keeping the payload id: sequence <-> compact
            t.ty.def = match &t.ty.def {
                MDef::Sequence(x) => MDef::Compact(*x),
                MDef::Compact(x) => MDef::Sequence(*x),
                MDef::Array { len, ty } => MDef::Array {
                    len: len.wrapping_add(1),
                    ty: *ty,
                },
                MDef::Primitive(p) => MDef::Primitive(ALL_PRIMS[(p.tag() as usize + 1) % 15]),
                _ => return None,
            }
        }
        10 => {
            // variant index / variant docs
            if let MDef::Variant(vs) = &mut t.ty.def {
                let v = vs.first_mut()?;
                if sel % 2 == 0 {
                    v.index = v.index.wrapping_add(1)
                } else if v.docs.is_empty() {
                    v.docs.push(String::new())
                } else {
                    v.docs.clear()
                }
            } else {
                return None;
            }
        }
        _ => {
            // drop the last entry
            r.types.pop();
        }
    }
    if &r == m {
        None
    } else {
        Some(r)
    }
}
