//! Reference JSON writer for a registry, written from the shape in the C08 statement only.

use crate::model::*;
use serde_json::{json, Map, Value};

fn strs(v: &[String]) -> Value {
    Value::Array(v.iter().map(|s| Value::String(s.clone())).collect())
}

fn field(f: &MField) -> Value {
    let mut m = Map::new();
    if let Some(n) = &f.name {
        m.insert("name".into(), Value::String(n.clone()));
    }
    m.insert("type".into(), json!(f.ty));
    if let Some(n) = &f.type_name {
        m.insert("typeName".into(), Value::String(n.clone()));
    }
    if !f.docs.is_empty() {
        m.insert("docs".into(), strs(&f.docs));
    }
    Value::Object(m)
}

fn fields_into(m: &mut Map<String, Value>, fs: &[MField]) {
    if !fs.is_empty() {
        m.insert("fields".into(), Value::Array(fs.iter().map(field).collect()));
    }
}

pub fn def_json(d: &MDef) -> Value {
    let (tag, payload) = match d {
        MDef::Composite(fs) => {
            let mut m = Map::new();
            fields_into(&mut m, fs);
            ("composite", Value::Object(m))
        }
        MDef::Variant(vs) => {
            let mut m = Map::new();
            if !vs.is_empty() {
                m.insert(
                    "variants".into(),
                    Value::Array(
                        vs.iter()
                            .map(|v| {
                                let mut vm = Map::new();
                                vm.insert("name".into(), Value::String(v.name.clone()));
                                fields_into(&mut vm, &v.fields);
                                vm.insert("index".into(), json!(v.index));
                                if !v.docs.is_empty() {
                                    vm.insert("docs".into(), strs(&v.docs));
                                }
                                Value::Object(vm)
                            })
                            .collect(),
                    ),
                );
            }
            ("variant", Value::Object(m))
        }
        MDef::Sequence(t) => ("sequence", json!({ "type": t })),
        MDef::Array { len, ty } => ("array", json!({ "len": len, "type": ty })),
        MDef::Tuple(ts) => ("tuple", json!(ts)),
        MDef::Primitive(p) => ("primitive", json!(p.json())),
        MDef::Compact(t) => ("compact", json!({ "type": t })),
        // the statement does not name the two members; `normalise` below erases their names
        MDef::BitSequence { store, order } => (
            "bitsequence",
            json!({ "bit_store_type": store, "bit_order_type": order }),
        ),
    };
    let mut m = Map::new();
    m.insert(tag.into(), payload);
    Value::Object(m)
}

pub fn type_json(t: &MType) -> Value {
    let mut m = Map::new();
    if !t.path.is_empty() {
        m.insert("path".into(), strs(&t.path));
    }
    if !t.params.is_empty() {
        m.insert(
            "params".into(),
            Value::Array(
                t.params
                    .iter()
                    .map(|p| {
                        let mut pm = Map::new();
                        pm.insert("name".into(), Value::String(p.name.clone()));
                        if let Some(id) = p.ty {
                            pm.insert("type".into(), json!(id));
                        }
                        Value::Object(pm)
                    })
                    .collect(),
            ),
        );
    }
    m.insert("def".into(), def_json(&t.def));
    if !t.docs.is_empty() {
        m.insert("docs".into(), strs(&t.docs));
    }
    Value::Object(m)
}

pub fn to_json_ref(m: &MReg) -> Value {
    json!({
        "types": m.types.iter().map(|t| json!({"id": t.id, "type": type_json(&t.ty)})).collect::<Vec<_>>()
    })
}

/// Normalise the two places where the statement is silent, on BOTH sides of the comparison:
/// a skipped parameter's `"type": null` is the same as an omitted `type`, and the two members of
/// a `bitsequence` object are compared as the sorted list of their values (names not asserted).
pub fn normalise(v: &mut Value) {
    if let Some(types) = v.get_mut("types").and_then(|t| t.as_array_mut()) {
        for t in types {
            let Some(ty) = t.get_mut("type") else { continue };
            if let Some(params) = ty.get_mut("params").and_then(|p| p.as_array_mut()) {
                for p in params {
                    if let Some(o) = p.as_object_mut() {
                        if o.get("type") == Some(&Value::Null) {
                            o.remove("type");
                        }
                    }
                }
            }
            if let Some(def) = ty.get_mut("def").and_then(|d| d.as_object_mut()) {
                if let Some(b) = def.get_mut("bitsequence") {
                    if let Some(o) = b.as_object() {
                        if o.len() == 2 {
                            let mut vals: Vec<String> = o.values().map(|x| x.to_string()).collect();
                            vals.sort();
                            *b = json!({ "__two_members": vals });
                        }
                    }
                }
            }
        }
    }
}
