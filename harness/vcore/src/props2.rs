//! properties on the run-time programmable type family (registration histories)
use crate::props::PropDef;

pub fn more() -> Vec<PropDef> {
    vec![
        PropDef {
            id: "C19",
            rule: "registry models from G_reg (wild and well-formed: every def kind, optional parts present and absent, arbitrary Unicode) serialised by the library and validated by python jsonschema against schemars::schema_for!(PortableRegistry) (binary built with the schema feature); the schema itself is checked against its meta-schema; plus a registry of real Rust types incl. a bit sequence; non-trivial = a type with one present and one omitted optional part, distinct by JSON text",
            assumptions: &["python jsonschema 4.26 (Draft 7 validator chosen from the schema's $schema) is the oracle"],
            subs: crate::p_schema::c19_subs,
            extra: Some(crate::p_schema::c19_extra),
        },
        PropDef {
            id: "C01",
            rule: "four producers: (a) Registry histories (register_type / register_types / map_into_portable, 0..24 ops) over the run-time programmable type family (16 nodes x 72 wrapper shapes, generated cyclic graph specs), invariant checked on Registry::types() after every op; (b) PortableRegistryBuilder histories under the documented reference discipline; (c) retain(mask) on the results and on generated well-formed registries; (d) decode(encode) / from_json(to_json) of each; oracle = id == index, resolve positional and total, every reference < n; non-trivial = at least 2 entries and at least one reference, distinct by (producer, encoding, ops)",
            assumptions: &["builder histories reference only ids already handed out or the announced next_type_id (the documented self-reference idiom)", "Rust types cannot be created at run time: type graphs come from a family of 16 const-generic node types whose type_info() is programmed per case"],
            subs: || {
                let mut v = crate::p_hist::c01_subs();
                v.extend(crate::fuzz_entry::fuzz_subs("C01"));
                v
            },
            extra: None,
        },
        PropDef {
            id: "C02",
            rule: "registration histories over generated type graphs (cycles, mutual recursion, nodes first met as parameters); two oracles per case: the harness-owned description of every type identity (independent of type_info) and a coinductive comparison of MetaType::type_info() with the portable entries, both walking every reference from every id handed out; termination by supervisor; non-trivial = a root whose entry has references, distinct by (spec, ops)",
            assumptions: &["PhantomData's own docs are not asserted (feature dependent)"],
            subs: crate::p_hist::c02_subs,
            extra: None,
        },
        PropDef {
            id: "C05",
            rule: "histories with deliberate repetition and aliases (Box/Rc/Arc/&/&mut/user alias of earlier roots), plus long histories of 280-640 distinct targets from the whole menu (registries beyond 256 entries); oracle = identity<->id bijection against the harness's identity function, unchanged registry on repeats, entry count == number of reachable identities after every registration, per-node type_info call counters <= 1; non-trivial = a repeat or alias arriving after >= 2 distinct registrations, distinct by (spec, targets)",
            assumptions: &["identity function: Box/Rc/Arc/&/&mut/user aliases are transparent, Vec/VecDeque/slice of the same element are one type, String is str, all PhantomData are one type, generic arguments are compared exactly"],
            subs: crate::p_hist::c05_subs,
            extra: None,
        },
        PropDef {
            id: "C11",
            rule: "histories (0..16 ops, and long ones of 280-640 distinct targets) with snapshots of Registry::types() after every op; oracle = each snapshot extends the previous one, ids handed out keep their definition, replay in a fresh Registry (same thread, other thread) is byte-identical, a generated permutation of the roots gives a registry isomorphic under the root-induced renaming; non-trivial = non-identity permutation of >= 2 roots with a shared sub-type, distinct by (spec, ops, permutation)",
            assumptions: &["cross-process replay is covered by the corpus fingerprint of C15, not here"],
            subs: crate::p_hist::c11_subs,
            extra: None,
        },
        PropDef {
            id: "C16",
            rule: "triples of types from the family (72 shapes x 16 nodes x aliases) under a generated spec; oracle = ==, cmp, partial_cmp, hash, type_id consistent with the harness identity function, antisymmetry, transitivity, equal identity => equal type_info(); non-trivial = a pair of different Rust types, distinct by the triple",
            assumptions: &["same identity function as C05"],
            subs: crate::p_hist::c16_subs,
            extra: None,
        },
    ]
}
