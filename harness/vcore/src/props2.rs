//! properties added by later build steps
use crate::props::PropDef;
pub fn more() -> Vec<PropDef> {
    vec![]
}
