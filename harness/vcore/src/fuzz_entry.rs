//! Entry functions shared by the libFuzzer targets (harness/fuzz) and by the replay of their
//! artefacts through `vrun`. Each takes raw bytes and applies the same oracles as the proptest
//! checks: the semantic oracle lives inside the target.

use crate::model::*;
use crate::refcodec::{ref_dec, ref_enc};
use crate::runner::*;
use serde_json::Value;

fn sink<R>(prop: &'static str, f: impl FnOnce(&mut Obs) -> R) -> R {
    with_sink_obs(prop, f)
}

pub fn scale_decode(data: &[u8]) -> Result<(), String> {
    crate::p_decode::check_scale_decode(data).map(|_| ())
}

pub fn json_decode(data: &[u8]) -> Result<(), String> {
    let text = String::from_utf8_lossy(data);
    crate::p_decode::check_json_decode(&text).map(|_| ())
}

/// bytes -> (reference decoder) -> registry model -> layout, round-trip and JSON oracles
pub fn reg_struct(data: &[u8]) -> Result<(), String> {
    let Ok((m, used)) = ref_dec(data) else { return Ok(()) };
    // anything the strict reference decoder accepts is canonical: the library must agree
    if ref_enc(&m) != data[..used] {
        return Err("harness: reference decoder accepted a non-canonical encoding".into());
    }
    sink("C06", |o| crate::p_reg::c06_body(&m, o))?;
    let case = crate::p_reg::C07Case { m: m.clone(), other: MReg::default(), which: data.len() as u16, sel: data.first().copied().unwrap_or(0) as u16 * 257, trailer: data[used..].iter().take(8).copied().collect() };
    sink("C07", |o| crate::p_reg::c07_body(&case, o))?;
    sink("C08", |o| crate::p_reg::c08_body(&m, o))?;
    Ok(())
}

/// bytes -> registry model (folded into well-formedness) + mask -> retain oracle
pub fn retain(data: &[u8]) -> Result<(), String> {
    let Ok((mut m, used)) = ref_dec(data) else { return Ok(()) };
    let n = m.types.len() as u32;
    if n == 0 || n > 200 {
        return Ok(());
    }
    for (i, t) in m.types.iter_mut().enumerate() {
        t.id = i as u32;
        t.ty = t.ty.map_refs(&mut |r| r % n);
    }
    let rest = &data[used..];
    let accept = |id: u32| -> bool {
        if rest.is_empty() {
            id % 2 == 0
        } else {
            (rest[(id as usize / 8) % rest.len()] >> (id % 8)) & 1 == 1
        }
    };
    crate::p_reg::check_retain(&m, &accept).map(|_| ())
}

pub fn ident(data: &[u8]) -> Result<(), String> {
    // one segment per 0xff-separated chunk; only valid UTF-8 input is a segment list
    let Ok(text) = std::str::from_utf8(data) else { return Ok(()) };
    if text.len() > 64 {
        return Ok(());
    }
    let segs: Vec<String> = text.split('\n').map(|s| s.to_string()).collect();
    sink("C18", |o| crate::p_path::segs_body(&crate::p_path::SegCase { segs }, o))
}

pub fn interner_ops(data: &[u8]) -> Result<(), String> {
    use crate::p_list::{IOp, InternCase};
    let Some((kind, rest)) = data.split_first() else { return Ok(()) };
    let ops: Vec<IOp> = rest
        .iter()
        .take(200)
        .map(|b| match b >> 6 {
            0 | 1 => IOp::Intern(b & 7),
            2 => {
                if b & 8 == 0 {
                    IOp::Get(b & 7)
                } else {
                    IOp::Resolve(b & 7)
                }
            }
            _ => {
                if b & 1 == 0 {
                    IOp::Elements
                } else {
                    IOp::Intern((b >> 1) & 7)
                }
            }
        })
        .collect();
    sink("C12", |o| crate::p_list::intern_body(&InternCase { kind: *kind, ops }, o))
}

/// (target, property whose thorough tier runs it, entry)
pub const TARGETS: [(&str, &str, fn(&[u8]) -> Result<(), String>); 10] = [
    ("scale_decode", "C14", scale_decode),
    ("json_decode", "C14", json_decode),
    ("reg_struct", "C06", reg_struct),
    ("reg_struct", "C07", reg_struct),
    ("reg_struct", "C08", reg_struct),
    ("retain", "C10", retain),
    ("retain", "C01", retain),
    ("reg_struct", "C01", reg_struct),
    ("ident", "C18", ident),
    ("interner_ops", "C12", interner_ops),
];

/// a sub-check that only replays libFuzzer artefacts (the campaigns themselves run under cargo-fuzz)
pub struct FuzzSub {
    pub name: &'static str,
    pub f: fn(&[u8]) -> Result<(), String>,
}

impl Sub for FuzzSub {
    fn name(&self) -> &'static str {
        self.name
    }
    fn run(&self, _ctx: &Ctx) -> SubResult {
        SubResult { stats: Stats::default(), failure: None }
    }
    fn replay(&self, _ctx: &Ctx, case: &Value) -> Result<(), String> {
        let hex = case["bytes_hex"].as_str().ok_or("replay file does not hold fuzz input bytes")?;
        let bytes: Vec<u8> = (0..hex.len() / 2).filter_map(|i| u8::from_str_radix(&hex[2 * i..2 * i + 2], 16).ok()).collect();
        match std::panic::catch_unwind(|| (self.f)(&bytes)) {
            Ok(r) => r,
            Err(p) => Err(format!("panic: {}", panic_msg(&p))),
        }
    }
}

pub fn fuzz_subs(prop: &str) -> Vec<Box<dyn Sub>> {
    let leak = |s: String| -> &'static str { Box::leak(s.into_boxed_str()) };
    TARGETS.iter().filter(|(_, p, _)| *p == prop).map(|(n, _, f)| Box::new(FuzzSub { name: leak(format!("fuzz_{n}")), f: *f }) as Box<dyn Sub>).collect()
}

/// golden seeds for the libFuzzer corpora: small valid encodings / documents / strings
pub fn write_seed_corpus(dir: &std::path::Path) -> std::io::Result<()> {
    use proptest::strategy::{Strategy, ValueTree};
    use proptest::test_runner::{Config, RngAlgorithm, TestRng, TestRunner};
    let mut runner = TestRunner::new_with_rng(Config::default(), TestRng::from_seed(RngAlgorithm::ChaCha, &[7u8; 32]));
    let mut regs: Vec<MReg> = vec![];
    for i in 0..40 {
        let s = if i % 2 == 0 { crate::genreg::reg_wf(6).boxed() } else { crate::genreg::reg_wild().boxed() };
        let m = s.new_tree(&mut runner).unwrap().current();
        if ref_enc(&m).len() <= 400 {
            regs.push(m);
        }
    }
    for t in ["scale_decode", "reg_struct", "retain", "json_decode", "ident", "interner_ops"] {
        std::fs::create_dir_all(dir.join(t))?;
    }
    for (i, m) in regs.iter().enumerate() {
        let enc = ref_enc(m);
        std::fs::write(dir.join("scale_decode").join(format!("reg{i:02}.bin")), &enc)?;
        std::fs::write(dir.join("reg_struct").join(format!("reg{i:02}.bin")), &enc)?;
        if crate::model::wf_model(m).is_ok() {
            let mut e = enc.clone();
            e.extend_from_slice(&[0xa5, 0x5a, 0xff]);
            std::fs::write(dir.join("retain").join(format!("reg{i:02}.bin")), &e)?;
        }
        std::fs::write(dir.join("json_decode").join(format!("reg{i:02}.json")), crate::refjson::to_json_ref(m).to_string())?;
    }
    for (i, s) in ["a", "r#a", "r#r#a", "_x9\nB", "r\n#", "é", "a::b", "A\nb\nc_1", ""].iter().enumerate() {
        std::fs::write(dir.join("ident").join(format!("s{i}.txt")), s.replace("\\n", "\n"))?;
    }
    for (i, s) in [&[0u8, 1, 2, 1, 0x80, 0x88, 0xc0][..], &[1, 0, 0, 0, 9, 0x41, 0x8f], &[2, 5, 5, 6, 5, 0x85, 0xc1]].iter().enumerate() {
        std::fs::write(dir.join("interner_ops").join(format!("o{i}.bin")), s)?;
    }
    Ok(())
}
