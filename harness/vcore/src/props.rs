//! Registry of properties: id -> rule text, assumptions, sub-checks, extra (non-proptest) phases.

use crate::runner::*;

pub struct PropDef {
    pub id: &'static str,
    pub rule: &'static str,
    pub assumptions: &'static [&'static str],
    pub subs: fn() -> Vec<Box<dyn Sub>>,
    /// extra phase run after the subs (exhaustive enumerations, coverage requirements);
    /// returns Err(msg) for an infrastructure problem (exit 2)
    pub extra: Option<fn(&Ctx, &mut Evidence) -> Result<(), String>>,
}

pub fn all() -> Vec<PropDef> {
    let mut v = vec![
        PropDef {
            id: "C06",
            rule: "registry models from G_reg (wild ids in all four compact classes, arbitrary Unicode, every def kind) and well-formed ones; oracle = hand-written V14 encoder/decoder; non-trivial = at least one type, distinct by hash of the encoding",
            assumptions: &["the reference codec in vcore/src/refcodec.rs transcribes the layout of the property statement", "parity-scale-codec's Compact/Vec/Option/String encodings are the SCALE ones"],
            subs: || {
                let mut v = crate::p_reg::c06_subs();
                v.extend(crate::fuzz_entry::fuzz_subs("C06"));
                v
            },
            extra: Some(c06_extra),
        },
        PropDef {
            id: "C07",
            rule: "registry models (wild + well-formed) with a trailer, a single-point mutation and an independent second registry; oracle = decode(encode(r)) == r, exact consumption, determinism, pairwise and run-wide injectivity; non-trivial = at least one type and a differing partner, distinct by hash of the encoding",
            assumptions: &["model -> library conversion through public constructors is injective"],
            subs: || {
                let mut v = crate::p_reg::c07_subs();
                v.extend(crate::fuzz_entry::fuzz_subs("C07"));
                v
            },
            extra: None,
        },
        PropDef {
            id: "C08",
            rule: "registry models with arbitrary Unicode; oracle = independent JSON writer built from the documented shape + read-back (from_value, from_str, pretty) + agreement with the SCALE round trip; non-trivial = a type with at least one present and one omitted optional part, distinct by JSON text",
            assumptions: &["names of the two members of a bitsequence object and null-vs-omitted for a skipped parameter type are not asserted (the statement is silent)"],
            subs: || {
                let mut v = crate::p_reg::c08_subs();
                v.extend(crate::fuzz_entry::fuzz_subs("C08"));
                v
            },
            extra: None,
        },
        PropDef {
            id: "C10",
            rule: "well-formed registries (<= 10 and <= 64 entries; cycles, self loops, params-only edges arise from uniformly random references) x filter predicates (masks over the registry's ids: random, sparse, all, none, singletons; each answering false or - in about a third of the cases - true for every id that is not in the registry, which gives `|_| true` and `|id| id != x`); oracle = reference BFS + substitution; non-trivial = the mask drops at least one entry and keeps one that has references, distinct by (encoding, mask)",
            assumptions: &["the filter closure is a pure function of the id"],
            subs: || {
                let mut v = crate::p_reg::c10_subs();
                v.extend(crate::fuzz_entry::fuzz_subs("C10"));
                v
            },
            extra: None,
        },
        PropDef {
            id: "C12",
            rule: "operation sequences (0..60 ops) over small alphabets for Interner<String>, Interner<u8>, Interner<(u8,bool)> and for PortableRegistryBuilder (pool of 12 types, self-referential types via next_type_id, generated types); tables of up to 700 distinct values with probes (sub-check large_tables); both public constructors; oracle = duplicate-free Vec with linear search compared after every step; non-trivial = a duplicate insertion after at least one other insertion, distinct by op list",
            assumptions: &[],
            subs: || {
                let mut v = crate::p_list::c12_subs();
                v.extend(crate::fuzz_entry::fuzz_subs("C12"));
                v
            },
            extra: None,
        },
        PropDef {
            id: "C14",
            rule: "arbitrary byte strings; valid encodings under every truncation, every single bit flip (<= 96 bytes), every compact replaced by class maxima / non-canonical forms, and generated fault sequences; arbitrary JSON-ish text; valid documents under key removal/rename/duplication, value retyping, deep nesting; oracle = no panic, peak live bytes <= 128 KiB + 256 x input, canonical re-encode of the consumed prefix, resolve total; non-trivial = input accepted or rejected after >= 4 bytes (JSON: syntactically valid), distinct by input hash",
            assumptions: &["the linear memory envelope 128 KiB + 256 x input length stands for 'proportional to the input'", "worker death (abort, stack overflow) is detected by the supervisor and attributed through side files"],
            subs: || {
                let mut v = crate::p_decode::c14_subs();
                v.extend(crate::fuzz_entry::fuzz_subs("C14"));
                v
            },
            extra: None,
        },
        PropDef {
            id: "C18",
            rule: "exhaustive: every string over {r,#,a,Z,_,0,9,space,:,-,e-acute,NUL} up to length 6 (thorough: 7), and every string over all 128 ASCII bytes up to length 3 plain and behind r#, each as a single segment; proptest: segment lists of valid identifiers and near misses, module paths and replacement tables; oracle = explicit DFA for (r#)?[A-Za-z_][A-Za-z0-9_]* and list semantics; non-trivial = string of length >= 2 / list of >= 2 segments",
            assumptions: &["replacement tables have distinct search keys; a replacement may equal another search key, and following the documentation (every search item that appears in the module path is replaced) rules are expected not to chain", "module paths are non-empty and their segments contain no ':'"],
            subs: || {
                let mut v = crate::p_path::c18_subs();
                v.extend(crate::fuzz_entry::fuzz_subs("C18"));
                v
            },
            extra: Some(c18_extra),
        },
    ];
    v.extend(crate::props2::more());
    v
}

fn c06_extra(_ctx: &Ctx, ev: &mut Evidence) -> Result<(), String> {
    // every definition tag 0..7 and primitive tag 0..14 must have been exercised
    let kinds = ["composite", "variant", "sequence", "array", "tuple", "primitive", "compact", "bitsequence"];
    for k in kinds {
        if !ev.stats.classes.keys().any(|c| c.ends_with(&format!("def/{k}"))) {
            return Err(format!("generator never produced def kind {k}"));
        }
    }
    for p in crate::model::ALL_PRIMS {
        if !ev.stats.classes.keys().any(|c| c.ends_with(&format!("prim/{}", p.json()))) {
            return Err(format!("generator never produced primitive {}", p.json()));
        }
    }
    for c in ["c1", "c2", "c4", "big"] {
        if !ev.stats.classes.keys().any(|k| k.ends_with(&format!("id/{c}"))) {
            return Err(format!("generator never produced an id in compact class {c}"));
        }
    }
    Ok(())
}

fn c18_extra(ctx: &Ctx, ev: &mut Evidence) -> Result<(), String> {
    let max_len = if ctx.tier == Tier::Thorough { 7 } else { 6 };
    let r = crate::p_path::exhaustive(max_len, ctx);
    ev.stats.evaluations += r.evaluated;
    ev.extra.insert("exhaustive_strings".into(), serde_json::json!({"alphabet": crate::p_path::ALPHABET.iter().map(|c| c.to_string()).collect::<Vec<_>>(), "max_len": max_len, "evaluated": r.evaluated, "accepted_by_reference": r.accepted, "length_ge_2": r.nontrivial}));
    ev.extra.insert("exhaustive_distinct_nontrivial".into(), serde_json::json!(r.nontrivial));
    // every enumerated string is distinct by construction
    ev.extra_distinct += r.nontrivial;
    for s in r.samples {
        if ev.stats.samples.len() < 10 {
            ev.stats.samples.push(s)
        }
    }
    for (k, n) in r.known {
        *ev.stats.excluded_known.entry(k).or_default() += n;
    }
    // second enumeration: the full ASCII range, length <= 3, plain and raw-prefixed
    let r2 = crate::p_path::exhaustive_ascii(ctx);
    ev.stats.evaluations += r2.evaluated;
    ev.extra_distinct += r2.nontrivial;
    ev.extra.insert("exhaustive_ascii".into(), serde_json::json!({"alphabet": "all 128 ASCII bytes", "max_len": 3, "also_with_raw_prefix": true, "evaluated": r2.evaluated, "accepted_by_reference": r2.accepted}));
    for s in r2.samples {
        if ev.stats.samples.len() < 12 {
            ev.stats.samples.push(s)
        }
    }
    for (k, n) in r2.known {
        *ev.stats.excluded_known.entry(k).or_default() += n;
    }
    if let Some((s, reason)) = r2.failure {
        let f = Failure { sub: "exhaustive".into(), reason: reason.clone(), case: serde_json::json!({"segs": [s]}) };
        let p = write_replay("C18", &f);
        eprintln!("  exhaustive (ASCII) FAILED: {reason}");
        ev.violations.push((reason, p));
    }
    ev.exhaustive = false; // exhaustive only within the stated alphabet/length: said in the rule
    if let Some((s, reason)) = r.failure {
        let f = Failure { sub: "exhaustive".into(), reason: reason.clone(), case: serde_json::json!({"segs": [s]}) };
        let p = write_replay("C18", &f);
        eprintln!("  exhaustive FAILED: {reason}");
        ev.violations.push((reason, p));
    }
    Ok(())
}
