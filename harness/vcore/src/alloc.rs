//! Counting global allocator: per-thread live/peak bytes while a measurement is switched on.

use std::alloc::{GlobalAlloc, Layout, System};
use std::cell::Cell;

pub struct Counting;

thread_local! {
    static ON: Cell<bool> = const { Cell::new(false) };
    static CUR: Cell<isize> = const { Cell::new(0) };
    static PEAK: Cell<isize> = const { Cell::new(0) };
    static LARGEST: Cell<usize> = const { Cell::new(0) };
}

#[inline]
fn add(n: isize, single: usize) {
    let _ = ON.try_with(|on| {
        if on.get() {
            let _ = CUR.try_with(|c| {
                let v = c.get() + n;
                c.set(v);
                let _ = PEAK.try_with(|p| {
                    if v > p.get() {
                        p.set(v)
                    }
                });
            });
            let _ = LARGEST.try_with(|l| {
                if single > l.get() {
                    l.set(single)
                }
            });
        }
    });
}

unsafe impl GlobalAlloc for Counting {
    unsafe fn alloc(&self, l: Layout) -> *mut u8 {
        add(l.size() as isize, l.size());
        System.alloc(l)
    }
    unsafe fn alloc_zeroed(&self, l: Layout) -> *mut u8 {
        add(l.size() as isize, l.size());
        System.alloc_zeroed(l)
    }
    unsafe fn dealloc(&self, p: *mut u8, l: Layout) {
        add(-(l.size() as isize), 0);
        System.dealloc(p, l)
    }
    unsafe fn realloc(&self, p: *mut u8, l: Layout, new: usize) -> *mut u8 {
        // while a realloc copies, old and new buffer may both be live
        add(new as isize, new);
        let r = System.realloc(p, l, new);
        add(-(l.size() as isize), 0);
        r
    }
}

/// run `f` and report (result, peak live bytes allocated by this thread during the call,
/// largest single request)
pub fn measure<R>(f: impl FnOnce() -> R) -> (R, usize, usize) {
    CUR.with(|c| c.set(0));
    PEAK.with(|c| c.set(0));
    LARGEST.with(|c| c.set(0));
    ON.with(|c| c.set(true));
    struct Off;
    impl Drop for Off {
        fn drop(&mut self) {
            ON.with(|c| c.set(false));
        }
    }
    let _off = Off;
    let r = f();
    ON.with(|c| c.set(false));
    (r, PEAK.with(|p| p.get()).max(0) as usize, LARGEST.with(|l| l.get()))
}
