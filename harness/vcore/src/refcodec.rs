//! Reference SCALE encoder/decoder for the V14 registry layout, written from the layout in the
//! property statement (C06) only. Never touches the library's derived codec.

use crate::model::*;

thread_local! {
    static REC: std::cell::RefCell<Option<Vec<(usize, usize)>>> = const { std::cell::RefCell::new(None) };
}

/// reference encoding together with the byte span of every compact integer in it
pub fn ref_enc_with_compacts(m: &MReg) -> (Vec<u8>, Vec<(usize, usize)>) {
    REC.with(|r| *r.borrow_mut() = Some(Vec::new()));
    let enc = ref_enc(m);
    let spans = REC.with(|r| r.borrow_mut().take()).unwrap_or_default();
    (enc, spans)
}

pub fn compact(n: u64, out: &mut Vec<u8>) {
    let start = out.len();
    compact_raw(n, out);
    REC.with(|r| {
        if let Some(v) = r.borrow_mut().as_mut() {
            v.push((start, out.len()))
        }
    });
}

fn compact_raw(n: u64, out: &mut Vec<u8>) {
    if n <= 0x3f {
        out.push((n as u8) << 2);
    } else if n <= 0x3fff {
        out.extend_from_slice(&(((n as u16) << 2) | 1).to_le_bytes());
    } else if n <= 0x3fff_ffff {
        out.extend_from_slice(&(((n as u32) << 2) | 2).to_le_bytes());
    } else {
        let bytes = n.to_le_bytes();
        let mut len = 8;
        while len > 4 && bytes[len - 1] == 0 {
            len -= 1;
        }
        out.push((((len - 4) as u8) << 2) | 3);
        out.extend_from_slice(&bytes[..len]);
    }
}

/// which of the four compact size classes a value falls in
pub fn compact_class(n: u64) -> &'static str {
    if n <= 0x3f {
        "c1"
    } else if n <= 0x3fff {
        "c2"
    } else if n <= 0x3fff_ffff {
        "c4"
    } else {
        "big"
    }
}

fn string(s: &str, out: &mut Vec<u8>) {
    compact(s.len() as u64, out);
    out.extend_from_slice(s.as_bytes());
}

fn strings(v: &[String], out: &mut Vec<u8>) {
    compact(v.len() as u64, out);
    for s in v {
        string(s, out)
    }
}

fn opt_string(s: &Option<String>, out: &mut Vec<u8>) {
    match s {
        None => out.push(0),
        Some(s) => {
            out.push(1);
            string(s, out)
        }
    }
}

fn field(f: &MField, out: &mut Vec<u8>) {
    opt_string(&f.name, out);
    compact(f.ty as u64, out);
    opt_string(&f.type_name, out);
    strings(&f.docs, out);
}

fn fields(fs: &[MField], out: &mut Vec<u8>) {
    compact(fs.len() as u64, out);
    for f in fs {
        field(f, out)
    }
}

pub fn enc_type(t: &MType, out: &mut Vec<u8>) {
    strings(&t.path, out);
    compact(t.params.len() as u64, out);
    for p in &t.params {
        string(&p.name, out);
        match p.ty {
            None => out.push(0),
            Some(id) => {
                out.push(1);
                compact(id as u64, out)
            }
        }
    }
    out.push(t.def.tag());
    match &t.def {
        MDef::Composite(fs) => fields(fs, out),
        MDef::Variant(vs) => {
            compact(vs.len() as u64, out);
            for v in vs {
                string(&v.name, out);
                fields(&v.fields, out);
                out.push(v.index);
                strings(&v.docs, out);
            }
        }
        MDef::Sequence(t) => compact(*t as u64, out),
        MDef::Array { len, ty } => {
            out.extend_from_slice(&len.to_le_bytes());
            compact(*ty as u64, out)
        }
        MDef::Tuple(ts) => {
            compact(ts.len() as u64, out);
            for t in ts {
                compact(*t as u64, out)
            }
        }
        MDef::Primitive(p) => out.push(p.tag()),
        MDef::Compact(t) => compact(*t as u64, out),
        MDef::BitSequence { store, order } => {
            compact(*store as u64, out);
            compact(*order as u64, out)
        }
    }
    strings(&t.docs, out);
}

pub fn ref_enc(m: &MReg) -> Vec<u8> {
    let mut out = Vec::new();
    compact(m.types.len() as u64, &mut out);
    for t in &m.types {
        compact(t.id as u64, &mut out);
        enc_type(&t.ty, &mut out);
    }
    out
}

// ---------------------------------------------------------------------------------------------
// decoder (strict: canonical compacts, option byte 0/1, tags in range, valid UTF-8)

pub struct Rd<'a> {
    pub buf: &'a [u8],
    pub pos: usize,
}

type R<T> = Result<T, String>;

impl<'a> Rd<'a> {
    pub fn new(buf: &'a [u8]) -> Self {
        Rd { buf, pos: 0 }
    }
    pub fn remaining(&self) -> usize {
        self.buf.len() - self.pos
    }
    pub fn byte(&mut self) -> R<u8> {
        let b = *self.buf.get(self.pos).ok_or("eof")?;
        self.pos += 1;
        Ok(b)
    }
    pub fn take(&mut self, n: usize) -> R<&'a [u8]> {
        if self.remaining() < n {
            return Err("eof".into());
        }
        let s = &self.buf[self.pos..self.pos + n];
        self.pos += n;
        Ok(s)
    }
    pub fn compact_u64(&mut self) -> R<u64> {
        let b0 = self.byte()?;
        match b0 & 3 {
            0 => Ok((b0 >> 2) as u64),
            1 => {
                let b1 = self.byte()?;
                let v = (u16::from_le_bytes([b0, b1]) >> 2) as u64;
                if v <= 0x3f {
                    return Err("non-canonical compact (2)".into());
                }
                Ok(v)
            }
            2 => {
                let r = self.take(3)?;
                let v = (u32::from_le_bytes([b0, r[0], r[1], r[2]]) >> 2) as u64;
                if v <= 0x3fff {
                    return Err("non-canonical compact (4)".into());
                }
                Ok(v)
            }
            _ => {
                let len = (b0 >> 2) as usize + 4;
                if len > 8 {
                    return Err("compact too wide".into());
                }
                let r = self.take(len)?;
                let mut bytes = [0u8; 8];
                bytes[..len].copy_from_slice(r);
                let v = u64::from_le_bytes(bytes);
                if len == 4 {
                    if v <= 0x3fff_ffff {
                        return Err("non-canonical compact (big)".into());
                    }
                } else if r[len - 1] == 0 {
                    return Err("non-canonical compact (big, leading zero)".into());
                }
                Ok(v)
            }
        }
    }
    pub fn compact_u32(&mut self) -> R<u32> {
        let v = self.compact_u64()?;
        u32::try_from(v).map_err(|_| "compact out of u32 range".to_string())
    }
    fn len(&mut self) -> R<usize> {
        // a vector can never be longer than the remaining input (every element takes >= 1 byte
        // in this layout, strings take >= 0 but their own vector length is bounded the same way)
        let n = self.compact_u32()? as usize;
        Ok(n)
    }
    fn string(&mut self) -> R<String> {
        let n = self.len()?;
        let s = self.take(n)?;
        String::from_utf8(s.to_vec()).map_err(|_| "bad utf8".to_string())
    }
    fn strings(&mut self) -> R<Vec<String>> {
        let n = self.len()?;
        if n > self.remaining() {
            return Err("eof".into());
        }
        (0..n).map(|_| self.string()).collect()
    }
    fn opt_string(&mut self) -> R<Option<String>> {
        match self.byte()? {
            0 => Ok(None),
            1 => Ok(Some(self.string()?)),
            _ => Err("bad option byte".into()),
        }
    }
    fn field(&mut self) -> R<MField> {
        Ok(MField {
            name: self.opt_string()?,
            ty: self.compact_u32()?,
            type_name: self.opt_string()?,
            docs: self.strings()?,
        })
    }
    fn fields(&mut self) -> R<Vec<MField>> {
        let n = self.len()?;
        if n > self.remaining() {
            return Err("eof".into());
        }
        (0..n).map(|_| self.field()).collect()
    }
    pub fn ty(&mut self) -> R<MType> {
        let path = self.strings()?;
        let n = self.len()?;
        if n > self.remaining() {
            return Err("eof".into());
        }
        let mut params = Vec::new();
        for _ in 0..n {
            let name = self.string()?;
            let ty = match self.byte()? {
                0 => None,
                1 => Some(self.compact_u32()?),
                _ => return Err("bad option byte".into()),
            };
            params.push(MParam { name, ty });
        }
        let def = match self.byte()? {
            0 => MDef::Composite(self.fields()?),
            1 => {
                let n = self.len()?;
                if n > self.remaining() {
                    return Err("eof".into());
                }
                let mut vs = Vec::new();
                for _ in 0..n {
                    vs.push(MVariant {
                        name: self.string()?,
                        fields: self.fields()?,
                        index: self.byte()?,
                        docs: self.strings()?,
                    })
                }
                MDef::Variant(vs)
            }
            2 => MDef::Sequence(self.compact_u32()?),
            3 => {
                let l = self.take(4)?;
                let len = u32::from_le_bytes([l[0], l[1], l[2], l[3]]);
                MDef::Array {
                    len,
                    ty: self.compact_u32()?,
                }
            }
            4 => {
                let n = self.len()?;
                if n > self.remaining() {
                    return Err("eof".into());
                }
                MDef::Tuple((0..n).map(|_| self.compact_u32()).collect::<R<_>>()?)
            }
            5 => MDef::Primitive(MPrim::from_tag(self.byte()?).ok_or("bad primitive tag")?),
            6 => MDef::Compact(self.compact_u32()?),
            7 => MDef::BitSequence {
                store: self.compact_u32()?,
                order: self.compact_u32()?,
            },
            _ => return Err("bad typedef tag".into()),
        };
        let docs = self.strings()?;
        Ok(MType {
            path,
            params,
            def,
            docs,
        })
    }
    pub fn registry(&mut self) -> R<MReg> {
        let n = self.len()?;
        if n > self.remaining() {
            return Err("eof".into());
        }
        let mut types = Vec::new();
        for _ in 0..n {
            let id = self.compact_u32()?;
            let ty = self.ty()?;
            types.push(MPType { id, ty });
        }
        Ok(MReg { types })
    }
}

/// decode a registry; returns the model and the number of bytes consumed
pub fn ref_dec(bytes: &[u8]) -> Result<(MReg, usize), String> {
    let mut rd = Rd::new(bytes);
    let m = rd.registry()?;
    Ok((m, rd.pos))
}
