//! C19 — the generated JSON Schema accepts every serialised registry.

use crate::genreg::*;
use crate::model::*;
use crate::runner::*;
use proptest::prelude::*;
use scale_info::PortableRegistry;
use serde_json::json;
use std::cell::RefCell;
use std::io::{BufRead, BufReader, Write};
use std::process::{Child, ChildStdin, ChildStdout, Command, Stdio};

struct Validator {
    _child: Child,
    stdin: ChildStdin,
    stdout: BufReader<ChildStdout>,
}

thread_local! {
    static VALIDATOR: RefCell<Option<Validator>> = const { RefCell::new(None) };
}

fn schema_path() -> std::path::PathBuf {
    let dir = verif_root().join("harness/target/schema");
    let _ = std::fs::create_dir_all(&dir);
    dir.join(format!("portable_registry.{}.schema.json", std::process::id()))
}

pub fn schema_text() -> String {
    let schema = schemars::schema_for!(PortableRegistry);
    serde_json::to_string(&schema).unwrap()
}

fn with_validator<R>(f: impl FnOnce(&mut Validator) -> Result<R, String>) -> Result<R, String> {
    VALIDATOR.with(|v| {
        let mut v = v.borrow_mut();
        if v.is_none() {
            let p = schema_path();
            if !p.exists() {
                std::fs::write(&p, schema_text()).map_err(|e| format!("harness: cannot write schema: {e}"))?;
            }
            let mut child = Command::new("python3-vt")
                .arg(verif_root().join("py/validate_stream.py"))
                .arg(&p)
                .stdin(Stdio::piped())
                .stdout(Stdio::piped())
                .stderr(Stdio::null())
                .spawn()
                .map_err(|e| format!("harness: cannot start python3-vt: {e}"))?;
            let stdin = child.stdin.take().unwrap();
            let mut stdout = BufReader::new(child.stdout.take().unwrap());
            let mut first = String::new();
            stdout.read_line(&mut first).map_err(|e| format!("harness: validator: {e}"))?;
            if let Some(e) = first.strip_prefix("schema-err ") {
                return Err(format!("[sig:schema-invalid] the generated schema is not a valid JSON Schema: {e}"));
            }
            if !first.starts_with("schema-ok") {
                return Err(format!("harness: validator did not start: {first:?}"));
            }
            *v = Some(Validator { _child: child, stdin, stdout });
        }
        f(v.as_mut().unwrap())
    })
}

pub fn validate(doc: &str) -> Result<Result<(), String>, String> {
    with_validator(|v| {
        v.stdin.write_all(doc.as_bytes()).and_then(|_| v.stdin.write_all(b"\n")).and_then(|_| v.stdin.flush()).map_err(|e| format!("harness: validator pipe: {e}"))?;
        let mut line = String::new();
        v.stdout.read_line(&mut line).map_err(|e| format!("harness: validator pipe: {e}"))?;
        let line = line.trim_end();
        if line == "ok" {
            Ok(Ok(()))
        } else if let Some(e) = line.strip_prefix("err ") {
            Ok(Err(e.to_string()))
        } else {
            Err(format!("harness: unexpected validator answer {line:?}"))
        }
    })
}

pub fn schema_body(m: &MReg, obs: &mut Obs) -> Result<(), String> {
    let lib = to_lib(m);
    let txt = serde_json::to_string(&lib).map_err(|e| e.to_string())?;
    match validate(&txt)? {
        Ok(()) => {}
        Err(e) => return Err(format!("[sig:schema-rejects] the schema rejects a serialised registry: {e}; document: {}", crate::p_reg::truncate(&txt, 500))),
    }
    // the same registry read back and serialised again is accepted too
    let back: PortableRegistry = serde_json::from_str(&txt).map_err(|e| e.to_string())?;
    let txt2 = serde_json::to_string(&back).map_err(|e| e.to_string())?;
    if txt2 != txt {
        match validate(&txt2)? {
            Ok(()) => {}
            Err(e) => return Err(format!("[sig:schema-rejects] the schema rejects a re-serialised registry: {e}")),
        }
    }
    let nt = m.types.iter().any(|t| {
        let present = !t.ty.path.is_empty() || !t.ty.params.is_empty() || !t.ty.docs.is_empty();
        let absent = t.ty.path.is_empty() || t.ty.params.is_empty() || t.ty.docs.is_empty();
        present && absent
    });
    if nt {
        obs.nontrivial(&txt);
    }
    crate::p_reg::reg_classes(m, obs);
    if obs.want_sample() {
        obs.sample(json!({"document": crate::p_reg::truncate(&txt, 900)}));
    }
    Ok(())
}

pub fn c19_subs() -> Vec<Box<dyn Sub>> {
    vec![
        Box::new(Check {
            name: "schema_wild",
            quick: 16_000,
            thorough: 300_000,
            strat: Box::new(|| reg_wild().boxed()),
            body: Box::new(schema_body),
            guard_death: false,
            max_shrink: 2048,
        }),
        Box::new(Check {
            name: "schema_wf",
            quick: 4_000,
            thorough: 100_000,
            strat: Box::new(|| reg_wf(12).boxed()),
            body: Box::new(schema_body),
            guard_death: false,
            max_shrink: 2048,
        }),
    ]
}

pub fn c19_extra(_ctx: &Ctx, ev: &mut Evidence) -> Result<(), String> {
    // registries produced by real registrations (every def kind incl. bit sequences) are accepted
    use scale_info::{meta_type, Registry};
    let mut r = Registry::new();
    r.register_type(&meta_type::<(u8, Option<String>, Result<Vec<u16>, [i32; 3]>, scale::Compact<u64>)>());
    r.register_type(&meta_type::<bitvec::vec::BitVec<u8, bitvec::order::Lsb0>>());
    r.register_type(&meta_type::<std::collections::BTreeMap<String, std::marker::PhantomData<u8>>>());
    r.register_type(&meta_type::<core::ops::Range<u32>>());
    let p: PortableRegistry = r.into();
    let txt = serde_json::to_string(&p).map_err(|e| e.to_string())?;
    match validate(&txt)? {
        Ok(()) => {}
        Err(e) => {
            let f = Failure { sub: "schema_wild".into(), reason: format!("[sig:schema-rejects] the schema rejects the registry of real Rust types: {e}"), case: serde_json::to_value(from_lib(&p)).unwrap() };
            let path = write_replay("C19", &f);
            ev.violations.push((f.reason, path));
        }
    }
    ev.stats.evaluations += 1;
    ev.extra.insert("schema_bytes".into(), json!(schema_text().len()));
    let _ = std::fs::remove_file(schema_path());
    Ok(())
}
