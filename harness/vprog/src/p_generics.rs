//! C13 — the derive accepts every supported generic definition with minimal bounds.
//! Each case is one generic definition plus instantiations chosen so that exactly the premises of
//! the property hold; rustc is the oracle, the run-time part checks the parameter listing.

use crate::ast::rust_str;
use crate::farm;
use crate::p_values::FULL;
use proptest::collection::vec;
use proptest::prelude::*;
use serde::{Deserialize, Serialize};
use serde_json::{json, Value};
use std::time::Duration;
use vcore::runner::*;

/// how a member's type mentions a type parameter
#[derive(Clone, Copy, Debug, PartialEq, Eq, Hash, Serialize, Deserialize)]
pub enum FK {
    Direct,
    VecOf,
    OptionOf,
    TupleWith,
    Array3,
    ArrayN,
    BoxOf,
    MapValue,
    Phantom,
    AssocA,
    AssocBQualified,
    VecOfAssoc,
    /// `P::Gen` — an associated type that carries the same name as the deriving type
    AssocSelfNamed,
    RefA,
    SliceB,
    /// `#[codec(compact)] x: P`
    Compact,
    /// `#[codec(skip)] x: NoInfo2<P>` — a type without type info that mentions the parameter
    SkippedNoInfoOf,
    /// `#[codec(skip)] x: NoInfo`
    SkippedNoInfo,
    /// a member that mentions no parameter at all
    Plain,
    /// `Option<Box<Self<..>>>`
    SelfBox,
    /// `Vec<Self<..>>`
    SelfVec,
    /// an earlier derived generic type applied to the parameter
    OtherGeneric,
    /// `Cow<'a, str>` style borrowed data using the first lifetime
    CowLt,
}

#[derive(Clone, Debug, PartialEq, Eq, Hash, Serialize, Deserialize)]
pub struct GField {
    pub kind: FK,
    pub param: u8,
}

#[derive(Clone, Debug, PartialEq, Eq, Hash, Serialize, Deserialize)]
pub struct GParam {
    /// listed in skip_type_params
    pub skip: bool,
    /// 0 none, 1 `Clone`, 2 `Bnd`, 3 `Clone + Bnd`, 4 `'static`
    pub inline_bound: u8,
    pub where_bound: u8,
    /// 0 none, 1 `= HasInfo`, 2 `= <previous param>`
    pub default: u8,
}

#[derive(Clone, Debug, PartialEq, Eq, Hash, Serialize, Deserialize)]
pub struct GCase {
    pub is_enum: bool,
    pub named: bool,
    pub lifetimes: u8,
    pub lifetime_bound: bool,
    pub params: Vec<GParam>,
    pub const_param: bool,
    pub fields: Vec<GField>,
    /// enum only: a `#[codec(skip)]` variant holding a type without type info that mentions param 0
    pub skipped_variant: bool,
    pub custom_bounds: bool,
    pub raw_names: bool,
    /// which argument menu entries to use per instantiation
    pub inst: Vec<Vec<u8>>,
    /// custom bounds only: bit 0 = the predicates on type parameters are written without `'static`
    /// (the derive adds `'static` for every parameter itself)
    #[serde(default)]
    pub bounds_style: u8,
}

const PN: [&str; 3] = ["T", "U", "V"];

impl GCase {
    fn pname(&self, i: u8) -> &'static str {
        if self.raw_names && i == 0 {
            "r#Tp"
        } else {
            PN[i as usize % 3]
        }
    }
    fn type_name(&self) -> &'static str {
        if self.raw_names {
            "r#Gen"
        } else {
            "Gen"
        }
    }
    fn n(&self) -> u8 {
        self.params.len() as u8
    }
    fn lt(&self, k: u8) -> &'static str {
        ["'a", "'b"][k as usize % 2]
    }
    /// fields, normalised so that every precondition of the grammar holds
    pub fn norm_fields(&self) -> Vec<GField> {
        let n = self.n();
        self.fields
            .iter()
            .map(|f| {
                let mut f = f.clone();
                if n == 0 {
                    f.param = 0;
                    if !matches!(f.kind, FK::Plain | FK::SkippedNoInfo | FK::SelfBox | FK::SelfVec | FK::CowLt) {
                        f.kind = FK::Plain;
                    }
                } else {
                    f.param %= n;
                }
                match f.kind {
                    FK::RefA | FK::CowLt if self.lifetimes == 0 => f.kind = if n > 0 { FK::BoxOf } else { FK::Plain },
                    FK::SliceB if self.lifetimes < 2 => f.kind = if n > 0 { FK::VecOf } else { FK::Plain },
                    FK::ArrayN if !self.const_param => f.kind = FK::Array3,
                    _ => {}
                }
                f
            })
            .collect()
    }
    fn uses_assoc(&self, p: u8) -> bool {
        self.norm_fields().iter().any(|f| f.param == p && matches!(f.kind, FK::AssocA | FK::AssocBQualified | FK::VecOfAssoc | FK::AssocSelfNamed))
    }
    fn uses_compact(&self, p: u8) -> bool {
        self.norm_fields().iter().any(|f| f.param == p && f.kind == FK::Compact)
    }
    /// does an encoded member hold a value of the parameter type itself?
    fn used_as_value(&self, p: u8) -> bool {
        self.norm_fields().iter().any(|f| f.param == p && matches!(f.kind, FK::Direct | FK::VecOf | FK::OptionOf | FK::TupleWith | FK::Array3 | FK::ArrayN | FK::BoxOf | FK::MapValue | FK::RefA | FK::SliceB | FK::Compact | FK::OtherGeneric))
    }
    /// a parameter may be named in skip_type_params only if no encoded member needs its type info
    pub fn skipped(&self, p: u8) -> bool {
        self.params[p as usize].skip && !self.used_as_value(p)
    }
    fn used_at_all(&self, p: u8) -> bool {
        self.norm_fields().iter().any(|f| f.param == p && !matches!(f.kind, FK::Plain | FK::SkippedNoInfo | FK::SelfBox | FK::SelfVec | FK::CowLt)) || (p == 0 && self.is_enum && self.skipped_variant)
    }

    fn self_ty(&self) -> String {
        let mut a: Vec<String> = (0..self.lifetimes).map(|k| self.lt(k).to_string()).collect();
        a.extend((0..self.n()).map(|i| self.pname(i).to_string()));
        if self.const_param {
            a.push("N".into());
        }
        if a.is_empty() {
            self.type_name().to_string()
        } else {
            format!("{}<{}>", self.type_name(), a.join(", "))
        }
    }

    fn field_ty(&self, f: &GField) -> String {
        let p = self.pname(f.param);
        match f.kind {
            FK::Direct | FK::Compact => p.to_string(),
            FK::VecOf => format!("Vec<{p}>"),
            FK::OptionOf => format!("Option<{p}>"),
            FK::TupleWith => format!("({p}, u8)"),
            FK::Array3 => format!("[{p}; 3]"),
            FK::ArrayN => format!("[{p}; N]"),
            FK::BoxOf => format!("Box<{p}>"),
            FK::MapValue => format!("BTreeMap<u8, {p}>"),
            FK::Phantom => format!("PhantomData<{p}>"),
            FK::AssocA => format!("{p}::A"),
            FK::AssocBQualified => format!("<{p} as Tr>::B"),
            FK::VecOfAssoc => format!("Vec<{p}::A>"),
            FK::AssocSelfNamed => format!("[{p}::{}; 2]", self.type_name()),
            FK::RefA => format!("&'a {p}"),
            FK::SliceB => format!("&'b [{p}]"),
            FK::SkippedNoInfoOf => format!("NoInfo2<{p}>"),
            FK::SkippedNoInfo => "NoInfo".into(),
            FK::Plain => "Vec<u32>".into(),
            FK::SelfBox => format!("Option<Box<{}>>", self.self_ty()),
            FK::SelfVec => format!("Vec<{}>", self.self_ty()),
            FK::OtherGeneric => format!("Other<{p}>"),
            FK::CowLt => "Cow<'a, str>".into(),
        }
    }

    fn bound_text(k: u8) -> Option<&'static str> {
        match k % 5 {
            1 => Some("Clone"),
            2 => Some("Bnd"),
            3 => Some("Clone + Bnd"),
            4 => Some("'static"),
            _ => None,
        }
    }

    fn generics_decl(&self) -> String {
        let mut g: Vec<String> = vec![];
        for k in 0..self.lifetimes {
            if k == 1 && self.lifetime_bound {
                g.push("'b: 'a".into());
            } else {
                g.push(self.lt(k).to_string());
            }
        }
        let mut defaults_started = false;
        for (i, p) in self.params.iter().enumerate() {
            let mut bounds: Vec<String> = vec![];
            if self.uses_assoc(i as u8) {
                bounds.push("Tr".into());
            }
            if let Some(b) = Self::bound_text(p.inline_bound) {
                bounds.push(b.into());
            }
            let mut s = self.pname(i as u8).to_string();
            if !bounds.is_empty() {
                s.push_str(&format!(": {}", bounds.join(" + ")));
            }
            // defaults must be trailing; a default has to satisfy the parameter's own bounds
            let want_default = p.default % 3 != 0 || defaults_started;
            if want_default {
                defaults_started = true;
                if p.default % 3 == 2 && i > 0 && !self.uses_assoc(i as u8) && self.bounds_subset(i, i - 1) {
                    s.push_str(&format!(" = {}", self.pname(i as u8 - 1)));
                } else {
                    s.push_str(" = HasInfo");
                }
            }
            g.push(s);
        }
        if self.const_param {
            g.push(if defaults_started { "const N: usize = 2".into() } else { "const N: usize".into() });
        }
        if g.is_empty() {
            String::new()
        } else {
            format!("<{}>", g.join(", "))
        }
    }

    /// are the declared bounds of parameter i implied by those of parameter j (for `U = T`)?
    fn bounds_subset(&self, i: usize, j: usize) -> bool {
        let set = |k: usize| -> Vec<&'static str> {
            let mut v = vec![];
            for b in [self.params[k].inline_bound, self.params[k].where_bound] {
                match b % 5 {
                    1 => v.push("Clone"),
                    2 => v.push("Bnd"),
                    3 => {
                        v.push("Clone");
                        v.push("Bnd")
                    }
                    4 => v.push("'static"),
                    _ => {}
                }
            }
            if self.uses_compact(k as u8) {
                v.push("HasCompact")
            }
            v
        };
        let (a, b) = (set(i), set(j));
        a.iter().all(|x| b.contains(x))
    }

    fn where_clause(&self) -> String {
        let mut w: Vec<String> = vec![];
        for (i, p) in self.params.iter().enumerate() {
            if let Some(b) = Self::bound_text(p.where_bound) {
                w.push(format!("{}: {}", self.pname(i as u8), b));
            }
        }
        if w.is_empty() {
            String::new()
        } else {
            format!(" where {}", w.join(", "))
        }
    }

    fn scale_info_attrs(&self) -> String {
        let mut parts: Vec<String> = vec![];
        let skipped: Vec<&str> = (0..self.n()).filter(|i| self.skipped(*i)).map(|i| self.pname(i)).collect();
        if !skipped.is_empty() {
            parts.push(format!("skip_type_params({})", skipped.join(", ")));
        }
        if self.custom_bounds {
            // explicit bounds: exactly what type_info() needs, written by the "user"
            let mut b: Vec<String> = vec![];
            for k in 0..self.lifetimes {
                b.push(format!("{}: 'static", self.lt(k)));
            }
            for i in 0..self.n() {
                if !self.skipped(i) {
                    b.push(if self.bounds_style % 2 == 1 { format!("{}: TypeInfo", self.pname(i)) } else { format!("{}: TypeInfo + 'static", self.pname(i)) });
                }
            }
            for f in self.norm_fields() {
                let p = self.pname(f.param);
                match f.kind {
                    FK::AssocA | FK::VecOfAssoc => b.push(format!("{p}::A: TypeInfo + 'static")),
                    FK::AssocBQualified => b.push(format!("<{p} as Tr>::B: TypeInfo + 'static")),
                    FK::AssocSelfNamed => b.push(format!("{p}::{}: TypeInfo + 'static", self.type_name())),
                    FK::Compact => b.push(format!("{p}: parity_scale_codec::HasCompact")),
                    _ => {}
                }
            }
            b.dedup();
            parts.push(format!("bounds({})", b.join(", ")));
        }
        if parts.is_empty() {
            String::new()
        } else {
            format!("#[scale_info({})]\n", parts.join(", "))
        }
    }

    fn field_names(&self) -> Vec<String> {
        self.norm_fields().iter().enumerate().map(|(k, _)| if self.raw_names && k == 0 { "r#type".to_string() } else { format!("f{k}") }).collect()
    }

    /// the definition; `with_derive = false` is the twin used to judge compile failures
    fn definition(&self, with_derive: bool) -> String {
        let mut s = String::new();
        if with_derive {
            s.push_str("#[derive(TypeInfo)]\n");
            s.push_str(&self.scale_info_attrs());
        }
        let fields = self.norm_fields();
        let names = self.field_names();
        let attr = |f: &GField| -> &'static str {
            if !with_derive {
                return "";
            }
            match f.kind {
                FK::Compact => "#[codec(compact)] ",
                FK::SkippedNoInfoOf | FK::SkippedNoInfo => "#[codec(skip)] ",
                _ => "",
            }
        };
        // an unused parameter or lifetime would not compile: anchor them in a PhantomData member
        let mut extra: Vec<String> = vec![];
        for i in 0..self.n() {
            if !self.used_at_all(i) {
                extra.push(format!("PhantomData<{}>", self.pname(i)));
            }
        }
        // (a lifetime that only appears in the self-referential members does not count as used)
        let lt_used = |lt: &str| fields.iter().any(|f| !matches!(f.kind, FK::SelfBox | FK::SelfVec) && self.field_ty(f).contains(lt));
        for k in 0..self.lifetimes {
            if !lt_used(self.lt(k)) {
                extra.push(format!("PhantomData<&{} ()>", self.lt(k)));
            }
        }
        if self.const_param && !fields.iter().any(|f| f.kind == FK::ArrayN) {
            extra.push("[u8; N]".into());
        }
        let mut members: Vec<String> = vec![];
        for (k, f) in fields.iter().enumerate() {
            members.push(if self.named { format!("{}{}: {}", attr(f), names[k], self.field_ty(f)) } else { format!("{}{}", attr(f), self.field_ty(f)) });
        }
        for (k, e) in extra.iter().enumerate() {
            members.push(if self.named { format!("anchor{k}: {e}") } else { e.clone() });
        }
        let body = if self.named { format!("{{ {} }}", members.join(", ")) } else { format!("({})", members.join(", ")) };
        if self.is_enum {
            s.push_str(&format!("pub enum {}{}{} {{\n", self.type_name(), self.generics_decl(), self.where_clause()));
            s.push_str("    Empty,\n");
            s.push_str(&format!("    Main{},\n", if members.is_empty() { String::new() } else { body }));
            if self.skipped_variant && self.n() > 0 {
                s.push_str(&format!("    {}Hidden(NoInfo2<{}>, NoInfo),\n", if with_derive { "#[codec(skip)] " } else { "" }, self.pname(0)));
            }
            s.push_str("}\n");
        } else if self.named {
            s.push_str(&format!("pub struct {}{}{} {}\n", self.type_name(), self.generics_decl(), self.where_clause(), if members.is_empty() { "{}".to_string() } else { body }));
        } else {
            s.push_str(&format!("pub struct {}{}{}{};\n", self.type_name(), self.generics_decl(), if members.is_empty() { "()".to_string() } else { body }, self.where_clause()));
        }
        s
    }

    /// argument menus per parameter (all entries satisfy every declared bound)
    fn arg_menu(&self, p: u8) -> Vec<&'static str> {
        if self.uses_compact(p) {
            if self.uses_assoc(p) {
                return vec!["CompactTr"];
            }
            return vec!["u32", "u64", "u8"];
        }
        if self.uses_assoc(p) {
            if self.skipped(p) {
                return vec!["HasInfo", "NoInfoT"];
            }
            return vec!["HasInfo"];
        }
        if self.skipped(p) {
            return vec!["NoInfoT", "u8", "HasInfo"];
        }
        vec!["u8", "String", "HasInfo", "Vec<u8>", "Option<u32>", "(u8, bool)"]
    }

    pub fn instantiations(&self) -> Vec<String> {
        let mut out = vec![];
        for sel in self.inst.iter().take(3) {
            let mut a: Vec<String> = (0..self.lifetimes).map(|_| "'static".to_string()).collect();
            for i in 0..self.n() {
                let menu = self.arg_menu(i);
                a.push(menu[sel.get(i as usize).copied().unwrap_or(0) as usize % menu.len()].to_string());
            }
            if self.const_param {
                a.push(format!("{}", 1 + sel.first().copied().unwrap_or(0) % 4));
            }
            let t = if a.is_empty() { self.type_name().to_string() } else { format!("{}<{}>", self.type_name(), a.join(", ")) };
            if !out.contains(&t) {
                out.push(t);
            }
        }
        if out.is_empty() {
            out.push(self.type_name().to_string());
        }
        out
    }

    pub fn source(&self, with_derive: bool) -> String {
        let mut s = crate::ast::PRELUDE.replace("BITVEC_USE", "");
        s.push_str(
            r#"
pub trait Tr { type A; type B; type SELFNAME; }
pub trait Bnd {}
/// types without type info
#[derive(Clone)] pub struct NoInfo;
#[derive(Clone)] pub struct NoInfo2<X>(pub X);
#[derive(Clone)] pub struct NoInfoT;
impl Tr for NoInfoT { type A = u8; type B = String; type SELFNAME = u16; }
impl Bnd for NoInfoT {}
#[derive(Clone, TypeInfo)] pub struct HasInfo;
impl Tr for HasInfo { type A = u32; type B = Vec<u16>; type SELFNAME = Option<u8>; }
impl Bnd for HasInfo {}
#[derive(Clone, TypeInfo, Encode, Decode, CompactAs)] pub struct CompactTr(pub u32);
impl Tr for CompactTr { type A = u64; type B = (u8, u8); type SELFNAME = bool; }
impl Bnd for CompactTr {}
impl Bnd for u8 {} impl Bnd for u32 {} impl Bnd for u64 {} impl Bnd for String {} impl Bnd for Vec<u8> {} impl Bnd for Option<u32> {} impl Bnd for (u8, bool) {}
#[derive(Clone, TypeInfo)] pub struct Other<X>(pub Vec<X>);
fn assert_type_info<X: TypeInfo + 'static>() {}
"#,
        );
        let s2 = s.replace("SELFNAME", self.type_name());
        let mut s = s2;
        s.push_str(&self.definition(with_derive));
        s.push_str("fn main() {\n");
        if with_derive {
            for (k, inst) in self.instantiations().iter().enumerate() {
                s.push_str(&format!("    assert_type_info::<{inst}>();\n    println!(\"INFO {k} {{}}\", vsupport::dump_type(&<{inst} as TypeInfo>::type_info()));\n"));
                s.push_str(&format!("    {{ let mut r = Registry::new(); let id = r.register_type(&meta_type::<{inst}>()).id; let p: PortableRegistry = r.into(); println!(\"REGISTERED {k} {{}} {{}}\", id, p.types.len()); }}\n"));
            }
        }
        s.push_str("}\n");
        s
    }

    pub fn sig(&self) -> &'static str {
        // root-cause classes the generator can tag by construction
        let fields = self.norm_fields();
        if self.lifetimes >= 2 && self.lifetime_bound && !self.custom_bounds {
            return "bounded-lifetime";
        }
        if !self.custom_bounds && self.n() > 0 && (fields.iter().any(|f| f.kind == FK::SkippedNoInfoOf) || (self.is_enum && self.skipped_variant)) {
            return "skipped-member-bound";
        }
        "derive-rejects-generic"
    }
}

pub fn generics_body(c: &GCase, obs: &mut Obs) -> Result<(), String> {
    let a = farm::anchor(&FULL)?;
    let src = c.source(true);
    let out = farm::compile(&a, &src, true)?;
    if !out.success {
        let twin = farm::compile(&a, &c.source(false), false)?;
        if !twin.success {
            return Err(format!("generator-invalid: generic definition does not compile even without the derive: {} || with derive: {}", twin.summary(), out.summary()));
        }
        let sig = if out.proc_macro_panicked() && c.sig() == "derive-rejects-generic" { "derive-panic" } else { c.sig() };
        return obs.fail_sig(sig, format!("the derive (or the use of its impl) is rejected for a supported generic definition: {} || definition: {}", out.summary(), c.definition(true).replace('\n', " ")));
    }
    let run = farm::run(out.bin.as_ref().unwrap(), &[], Duration::from_secs(20))?;
    if run.timed_out {
        return Err("[sig:hang] type_info() / registration of a generic definition does not terminate".into());
    }
    if run.status != Some(0) {
        return Err(format!("[sig:runtime-panic] type_info() of a generic definition panicked: {}", run.stderr.lines().find(|l| l.contains("panicked")).unwrap_or("")));
    }
    let insts = c.instantiations();
    for (k, inst) in insts.iter().enumerate() {
        let info: Value = run
            .stdout
            .lines()
            .find_map(|l| l.strip_prefix(&format!("INFO {k} ")))
            .and_then(|l| serde_json::from_str(l).ok())
            .ok_or("harness: missing INFO line")?;
        let got: Vec<(String, bool)> = info["params"].as_array().map(|a| a.iter().map(|x| (x[0].as_str().unwrap_or("").to_string(), x[1].as_bool().unwrap_or(false))).collect()).unwrap_or_default();
        let want: Vec<(String, bool)> = (0..c.n()).map(|i| (c.pname(i).to_string(), !c.skipped(i))).collect();
        if got != want {
            return Err(format!("[sig:param-listing] `{inst}`: parameters listed as {:?}, expected {:?} (Some unless named in skip_type_params)", got, want));
        }
        if !run.stdout.lines().any(|l| l.starts_with(&format!("REGISTERED {k} "))) {
            return Err("harness: missing REGISTERED line".into());
        }
    }
    if c.n() > 0 {
        obs.nontrivial(c);
    }
    for f in c.norm_fields() {
        obs.class(&format!("member/{:?}", f.kind));
    }
    if c.custom_bounds {
        obs.class("attr/bounds");
    }
    if (0..c.n()).any(|i| c.skipped(i)) {
        obs.class("attr/skip_type_params");
    }
    if c.lifetimes > 0 {
        obs.class("generics/lifetime");
    }
    if c.lifetimes >= 2 && c.lifetime_bound {
        obs.class("generics/bounded_lifetime");
    }
    if c.const_param {
        obs.class("generics/const");
    }
    if c.params.iter().any(|p| p.default % 3 != 0) {
        obs.class("generics/default");
    }
    if c.params.iter().any(|p| p.where_bound % 5 != 0) {
        obs.class("generics/where_clause");
    }
    if c.params.iter().any(|p| p.inline_bound % 5 != 0) {
        obs.class("generics/inline_bound");
    }
    obs.class(if c.is_enum { "def/enum" } else { "def/struct" });
    obs.class_n("instantiations", insts.len() as u64);
    if obs.want_sample() {
        obs.sample(json!({"definition": c.definition(true), "instantiations": insts}));
    }
    Ok(())
}

fn fk() -> impl Strategy<Value = FK> {
    prop::sample::select(vec![
        FK::Direct, FK::Direct, FK::VecOf, FK::OptionOf, FK::TupleWith, FK::Array3, FK::ArrayN, FK::BoxOf, FK::MapValue, FK::Phantom, FK::Phantom, FK::AssocA, FK::AssocBQualified,
        FK::VecOfAssoc, FK::AssocSelfNamed, FK::RefA, FK::SliceB, FK::Compact, FK::SkippedNoInfoOf, FK::SkippedNoInfo, FK::Plain, FK::SelfBox, FK::SelfVec, FK::OtherGeneric, FK::CowLt,
    ])
}

pub fn gcase() -> BoxedStrategy<GCase> {
    let param = (prop::bool::weighted(0.3), 0u8..5, prop_oneof![3 => Just(0u8), 1 => 1u8..5], prop_oneof![4 => Just(0u8), 1 => 1u8..3]).prop_map(|(skip, inline_bound, where_bound, default)| GParam { skip, inline_bound, where_bound, default });
    (
        any::<bool>(),
        any::<bool>(),
        prop_oneof![3 => Just(0u8), 2 => Just(1u8), 2 => Just(2u8)],
        prop::bool::weighted(0.5),
        vec(param, 0..4),
        prop::bool::weighted(0.25),
        vec((fk(), 0u8..3).prop_map(|(kind, param)| GField { kind, param }), 0..6),
        prop::bool::weighted(0.3),
        prop::bool::weighted(0.25),
        prop::bool::weighted(0.15),
        vec(vec(any::<u8>(), 3), 1..4),
    )
        .prop_map(|(is_enum, named, lifetimes, lifetime_bound, params, const_param, fields, skipped_variant, custom_bounds, raw_names, inst)| GCase {
            is_enum,
            named,
            lifetimes,
            lifetime_bound,
            params: params.into_iter().take(3).collect(),
            const_param,
            fields,
            skipped_variant,
            custom_bounds,
            raw_names,
            // derived from the generated instantiation menu: no extra generator dimension needed
            bounds_style: inst.first().and_then(|v| v.first()).copied().unwrap_or(0) / 64,
            inst,
        })
        .boxed()
}

// ------------------------------------------------------ recursive definitions with custom bounds

/// Mutually recursive generic definitions are the reason the `bounds(..)` attribute exists: the
/// generated per-member bounds would be cyclic (E0275), the explicit ones replace them. Templates
/// with generated variation; every one compiles on a tree where the statement holds.
#[derive(Clone, Debug, PartialEq, Eq, Hash, Serialize, Deserialize)]
pub struct RCase {
    pub template: u8,
    pub variation: u8,
}

impl RCase {
    pub fn source(&self, with_derive: bool) -> String {
        let v = self.variation;
        let st = if v % 2 == 0 { " + 'static" } else { "" };
        let (defs, insts): (String, Vec<&str>) = match self.template % 4 {
            // empty bounds + skipped parameter (PhantomData keeps T alive)
            0 => (
                format!(
                    "#[derive(TypeInfo)]\n#[scale_info(bounds(), skip_type_params(T))]\npub struct A<T> {{ a: Vec<B<T>>, b: Vec<B<()>>, m: core::marker::PhantomData<T> }}\n#[derive(TypeInfo)]\n#[scale_info({})]\npub struct B<T>(A<T>);\n",
                    if v / 2 % 2 == 0 { "skip_type_params(T)" } else { "bounds(), skip_type_params(T)" }
                ),
                vec!["A<NoInfoT>", "B<u8>"],
            ),
            // explicit bounds on the parameter, both sides
            1 => (
                format!(
                    "#[derive(TypeInfo)]\n#[scale_info(bounds(T: TypeInfo{st}))]\npub struct A<T> {{ b: Option<Box<B<T>>>, v: T }}\n#[derive(TypeInfo)]\n#[scale_info(bounds(T: TypeInfo{st}))]\npub {}\n",
                    if v / 2 % 2 == 0 { "struct B<T> { a: Vec<A<T>> }" } else { "enum B<T> { Nil, Cons(Vec<A<T>>), Leaf { t: T } }" }
                ),
                vec!["A<u8>", "B<Vec<u16>>"],
            ),
            // self recursion through a container of Self with another instantiation
            2 => (
                format!("#[derive(TypeInfo)]\n#[scale_info(bounds(T: TypeInfo{st}))]\npub struct A<T> {{ next: Option<Box<A<Option<T>>>>, v: T }}\n"),
                vec![],
            ),
            // three-cycle, one link with empty bounds and a skipped parameter
            _ => (
                format!(
                    "#[derive(TypeInfo)]\n#[scale_info(bounds(T: TypeInfo{st}))]\npub struct A<T> {{ b: Vec<B<T>>, t: T }}\n#[derive(TypeInfo)]\n#[scale_info(bounds(T: TypeInfo{st}))]\npub struct B<T> {{ c: Option<C<T>> }}\n#[derive(TypeInfo)]\n#[scale_info(bounds(T: TypeInfo{st}))]\npub enum C<T> {{ Back(Box<A<T>>), End }}\n"
                ),
                vec!["A<u32>", "C<bool>"],
            ),
        };
        let defs = if with_derive { defs } else { defs.lines().filter(|l| !l.starts_with("#[derive(TypeInfo)]") && !l.starts_with("#[scale_info(")).collect::<Vec<_>>().join("\n") + "\n" };
        let mut s = String::from("#![allow(dead_code, unused_imports)]\nuse scale_info::{meta_type, PortableRegistry, Registry, TypeInfo};\npub struct NoInfoT;\nfn assert_type_info<X: TypeInfo + 'static>() {}\n");
        s.push_str(&defs);
        s.push_str("fn main() {\n");
        if with_derive {
            for inst in &insts {
                s.push_str(&format!("    assert_type_info::<{inst}>();\n    {{ let mut r = Registry::new(); let id = r.register_type(&meta_type::<{inst}>()).id; let p: PortableRegistry = r.into(); assert!(p.resolve(id).is_some()); println!(\"REGISTERED {{}}\", p.types.len()); }}\n"));
            }
        }
        s.push_str("}\n");
        s
    }
}

pub fn rcase() -> BoxedStrategy<RCase> {
    (0u8..4, any::<u8>()).prop_map(|(template, variation)| RCase { template, variation }).boxed()
}

pub fn recursive_body(c: &RCase, obs: &mut Obs) -> Result<(), String> {
    let a = farm::anchor(&FULL)?;
    let out = farm::compile(&a, &c.source(true), true)?;
    if !out.success {
        let twin = farm::compile(&a, &c.source(false), false)?;
        if !twin.success {
            return Err(format!("generator-invalid: recursive definitions do not compile even without the derive: {}", twin.summary()));
        }
        return obs.fail_sig("derive-rejects-generic", format!("the derive (or the use of its impl) is rejected for recursive definitions whose bounds are given explicitly: {} || definitions: {}", out.summary(), c.source(true).lines().filter(|l| l.starts_with("#[scale_info") || l.starts_with("pub ")).collect::<Vec<_>>().join(" ")));
    }
    let run = farm::run(out.bin.as_ref().unwrap(), &[], Duration::from_secs(20))?;
    if run.timed_out {
        return Err("[sig:hang] registration of recursive generic definitions does not terminate".into());
    }
    if run.status != Some(0) {
        return Err(format!("[sig:runtime-panic] registration of recursive generic definitions failed: {}", run.stderr.lines().find(|l| l.contains("panicked")).unwrap_or("")));
    }
    obs.class(&format!("recursive_template/{}", c.template % 4));
    obs.nontrivial(c);
    Ok(())
}

#[allow(dead_code)]
fn _unused(_: &str) -> String {
    rust_str("")
}
