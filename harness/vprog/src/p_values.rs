//! C03 / C04 / C09 / C17(program part): generated programs compiled against the current tree,
//! run, and judged from their output.

use crate::ast::*;
use crate::dec::{val_eq, val_from_json, Dec};
use crate::farm;
use crate::gen;
use proptest::prelude::*;
use serde::{Deserialize, Serialize};
use serde_json::{json, Value};
use std::time::Duration;
use vcore::model::*;
use vcore::refcodec::ref_dec;
use vcore::runner::*;
use vsupport::Val;

#[derive(Clone, Debug, Serialize, Deserialize)]
pub struct ProgCase {
    pub prog: Program,
    pub entropies: Vec<Vec<u8>>,
}

pub struct Parsed {
    pub reg: MReg,
    pub reg_bytes: Vec<u8>,
    pub type_ids: Vec<Option<u32>>,
    pub infos: Vec<Option<Value>>,
    pub members: Vec<Option<(bool, u64, u64)>>,
    pub params: Vec<Option<bool>>,
    pub vals: Vec<Vec<(Vec<u8>, Val)>>,
    /// outcome of the in-program comparison of type_info() with the registry (C02)
    pub sim: Option<Result<usize, String>>,
    pub stdout: String,
}

pub const FULL: [&str; 7] = ["std", "derive", "serde", "decode", "docs", "bit-vec", "schema"];
pub const FULL_NODOCS: [&str; 6] = ["std", "derive", "serde", "decode", "bit-vec", "schema"];

/// compile + run a program; Err(String) = infrastructure, Ok(Err(reason)) = property-level failure
pub fn build_and_run(case: &ProgCase, features: &[&str]) -> Result<Result<Parsed, String>, String> {
    let a = farm::anchor(features)?;
    let bitvec = features.contains(&"bit-vec");
    let src = case.prog.source(bitvec);
    if let Some(dir) = std::env::var_os("VERIF_DUMP_SRC") {
        // debugging aid for replays: keep the generated source
        let _ = std::fs::create_dir_all(&dir);
        let _ = std::fs::write(std::path::Path::new(&dir).join("case.rs"), &src);
    }
    let out = farm::compile(&a, &src, true)?;
    if !out.success {
        // judge by the twin: the same definitions without the TypeInfo derive
        let twin = farm::compile(&a, &case.prog.source_twin(bitvec), false)?;
        if twin.success {
            let sig = if out.proc_macro_panicked() { "derive-panic" } else { classify_compile_failure(&case.prog) };
            return Ok(Err(format!("[sig:{sig}] the TypeInfo derive rejects a definition that compiles without it: {}", out.summary())));
        }
        if let Some(dir) = std::env::var_os("VERIF_DUMP_SRC") {
            let _ = std::fs::write(std::path::Path::new(&dir).join("harness_bug.rs"), &src);
        }
        return Err(format!("generator-invalid: generated program does not compile even without TypeInfo: {} || twin: {}", out.summary(), twin.summary()));
    }
    let bin = out.bin.clone().ok_or("no binary")?;
    let args: Vec<String> = case.entropies.iter().map(|e| if e.is_empty() { "00".to_string() } else { vsupport::hex(e) }).collect();
    let run = farm::run(&bin, &args, Duration::from_secs(30))?;
    if run.timed_out {
        return Ok(Err("[sig:hang] the generated program did not terminate within 30 s (registration or type_info does not terminate)".into()));
    }
    if run.status != Some(0) {
        let first = run.stderr.lines().find(|l| l.contains("panicked")).or(run.stderr.lines().next()).unwrap_or("").to_string();
        let next = run.stderr.lines().skip_while(|l| !l.contains("panicked")).nth(1).unwrap_or("").to_string();
        return Ok(Err(format!("[sig:runtime-panic] the generated program failed at run time (status {:?}, signal {:?}): {} {}", run.status, run.signal, first, next)));
    }
    parse_output(&case.prog, &run.stdout).map(Ok)
}

pub fn classify_compile_failure(p: &Program) -> &'static str {
    // root-cause classes the generator can tag by construction
    for d in &p.defs {
        if let Body::Enum(vs) = &d.body {
            if vs.iter().any(|v| v.discriminant.as_ref().map_or(false, |(s, _)| s.contains(" - ") || s.contains(" + ") && s.starts_with("300"))) {
                return "discriminant-expression";
            }
        }
    }
    "derive-rejects"
}

pub fn parse_output(prog: &Program, stdout: &str) -> Result<Parsed, String> {
    let n = prog.roots.len();
    let mut p = Parsed { reg: MReg::default(), reg_bytes: vec![], type_ids: vec![None; n], infos: vec![None; n], members: vec![None; n], params: vec![None; n], vals: vec![vec![]; n], sim: None, stdout: stdout.to_string() };
    let mut saw_reg = false;
    for line in stdout.lines() {
        let mut it = line.splitn(2, ' ');
        let tag = it.next().unwrap_or("");
        let rest = it.next().unwrap_or("");
        match tag {
            "REG" => {
                p.reg_bytes = vsupport::unhex(rest);
                let (m, used) = ref_dec(&p.reg_bytes).map_err(|e| format!("harness: registry printed by the program does not decode with the reference decoder: {e}"))?;
                if used != p.reg_bytes.len() {
                    return Err("harness: trailing bytes after the registry".into());
                }
                p.reg = m;
                saw_reg = true;
            }
            "SIM" => {
                let mut w = rest.splitn(2, ' ');
                p.sim = Some(match w.next() {
                    Some("ok") => Ok(w.next().and_then(|x| x.parse().ok()).unwrap_or(0)),
                    _ => Err(w.next().unwrap_or("").to_string()),
                });
            }
            "TYPE" => {
                let mut w = rest.split(' ');
                let k: usize = w.next().and_then(|x| x.parse().ok()).ok_or("harness: TYPE line")?;
                p.type_ids[k] = w.next().and_then(|x| x.parse().ok());
            }
            "INFO" => {
                let mut w = rest.splitn(2, ' ');
                let k: usize = w.next().and_then(|x| x.parse().ok()).ok_or("harness: INFO line")?;
                p.infos[k] = Some(serde_json::from_str(w.next().unwrap_or("null")).map_err(|e| format!("harness: INFO json: {e}"))?);
            }
            "MEMBERS" => {
                let w: Vec<&str> = rest.split(' ').collect();
                let k: usize = w[0].parse().map_err(|_| "harness: MEMBERS line")?;
                p.members[k] = Some((w[1] == "true", w[2].parse().unwrap_or(0), w[3].parse().unwrap_or(0)));
            }
            "PARAMS" => {
                let w: Vec<&str> = rest.split(' ').collect();
                let k: usize = w[0].parse().map_err(|_| "harness: PARAMS line")?;
                p.params[k] = Some(w[1] == "true");
            }
            "VAL" => {
                let mut w = rest.splitn(3, ' ');
                let k: usize = w.next().and_then(|x| x.parse().ok()).ok_or("harness: VAL line")?;
                let bytes = vsupport::unhex(w.next().unwrap_or(""));
                let v: Value = serde_json::from_str(w.next().unwrap_or("null")).map_err(|e| format!("harness: VAL json: {e}"))?;
                p.vals[k].push((bytes, val_from_json(&v)?));
            }
            _ => {}
        }
    }
    if !saw_reg {
        return Err("harness: program printed no registry".into());
    }
    Ok(p)
}

fn attr_classes(p: &Program, obs: &mut Obs) {
    for d in &p.defs {
        obs.class(match &d.body {
            Body::Struct(Shape::Named, _) => "def/struct_named",
            Body::Struct(Shape::Unnamed, _) => "def/struct_unnamed",
            Body::Struct(Shape::Unit, _) => "def/struct_unit",
            Body::Enum(_) => "def/enum",
        });
        if d.n_params > 0 {
            obs.class("def/generic");
        }
        if d.lifetime {
            obs.class("def/lifetime");
        }
        if d.via_macro {
            obs.class("def/via_macro_rules");
            if let crate::ast::Body::Struct(_, fs) = &d.body {
                if fs.first().map_or(false, |f| f.attr.compact || f.attr.encoded_as) {
                    obs.class("def/via_macro_rules_compact_member");
                }
                if fs.first().map_or(false, |f| f.attr.skip) {
                    obs.class("def/via_macro_rules_skipped_member");
                }
            }
        }
        for f in d.all_fields() {
            if f.attr.skip {
                obs.class("member/skip");
            }
            if f.attr.compact {
                obs.class("member/compact");
            }
            if f.attr.encoded_as {
                obs.class("member/encoded_as");
            }
            if f.attr.rename.is_some() {
                obs.class("member/rename");
            }
            if f.ty.is_phantom() {
                obs.class("member/phantom");
            }
            if f.ty.any(&|t| matches!(t, TE::SelfTy)) {
                obs.class("member/self_reference");
            }
            if f.ty.any(&|t| matches!(t, TE::Def(..))) {
                obs.class("member/uses_earlier_definition");
            }
        }
        if let Body::Enum(vs) = &d.body {
            if vs.iter().any(|v| v.index.is_some()) {
                obs.class("enum/codec_index");
            }
            if vs.iter().any(|v| v.skip) {
                obs.class("enum/skipped_variant");
            }
            if vs.iter().any(|v| v.discriminant.is_some()) {
                obs.class("enum/discriminant");
            }
            if vs.iter().any(|v| v.discriminant.is_some() && v.shape != Shape::Unit) {
                obs.class("enum/discriminant_on_variant_with_fields");
            }
        }
        if !d.attr.skip_params.is_empty() {
            obs.class("attr/skip_type_params");
        }
        if d.attr.capture_docs.is_some() {
            obs.class("attr/capture_docs");
        }
        if !d.attr.replace.is_empty() {
            obs.class("attr/replace_segment");
        }
        if d.attr.crate_attr != 0 {
            obs.class("attr/crate");
        }
    }
}

fn te_classes(t: &TE, obs: &mut Obs) {
    let name = |t: &TE| -> &'static str {
        match t {
            TE::Bool => "bool",
            TE::U(_) => "uint",
            TE::I(_) => "int",
            TE::Char => "char",
            TE::Str | TE::StrA | TE::String => "str",
            TE::SliceA(_) | TE::SliceStatic(_) => "slice",
            TE::Unit => "unit",
            TE::Array(..) => "array",
            TE::Tuple(_) => "tuple",
            TE::Vec(_) => "Vec",
            TE::VecDeque(_) => "VecDeque",
            TE::Box(_) | TE::Rc(_) | TE::Arc(_) | TE::Ref(_) => "pointer",
            TE::Option(_) => "Option",
            TE::Result(..) => "Result",
            TE::CowStr | TE::CowSlice(_) | TE::Cow(_) => "Cow",
            TE::Map(..) => "BTreeMap",
            TE::Set(_) => "BTreeSet",
            TE::Heap(_) => "BinaryHeap",
            TE::Compact(_) | TE::CW => "Compact",
            TE::Range(_) | TE::RangeIncl(_) => "Range",
            TE::NonZeroU(_) | TE::NonZeroI(_) => "NonZero",
            TE::Duration => "Duration",
            TE::Phantom(_) => "PhantomData",
            TE::BitVec(..) => "BitVec",
            TE::Def(..) => "definition",
            TE::Param(_) | TE::SelfTy => "param",
        }
    };
    obs.class(&format!("ctor/{}", name(t)));
    for c in t.children() {
        te_classes(c, obs);
    }
}

/// the signature of a value-level failure: root-cause classes the generator tags by construction
fn value_failure_sig(prog: &Program, root: &TE) -> &'static str {
    let uses_encoded_as = root.any(&|t| match t {
        TE::Def(i, _) => def_reaches(prog, *i, &|d| d.all_fields().iter().any(|f| f.attr.encoded_as)),
        _ => false,
    });
    if uses_encoded_as {
        "encoded-as"
    } else {
        "metadata-vs-encoding"
    }
}

fn def_reaches(prog: &Program, i: usize, pred: &dyn Fn(&Def) -> bool) -> bool {
    let d = &prog.defs[i];
    if pred(d) {
        return true;
    }
    d.all_fields().iter().any(|f| {
        f.ty.any(&|t| match t {
            TE::Def(j, _) if *j < i => def_reaches(prog, *j, pred),
            _ => false,
        })
    })
}

/// C03 / C04: every value's encoding decodes, from the registry alone, to the value's model
pub fn values_body(case: &ProgCase, obs: &mut Obs, builtin_only: bool) -> Result<(), String> {
    let parsed = match build_and_run(case, &FULL)? {
        Ok(p) => p,
        Err(reason) => {
            let sig = reason.strip_prefix("[sig:").and_then(|r| r.split(']').next()).unwrap_or("derive-rejects").to_string();
            return obs.fail_sig(&sig, reason);
        }
    };
    let ctx = case.prog.root_ctx();
    for (k, root) in case.prog.roots.iter().enumerate() {
        let id = parsed.type_ids[k].ok_or("harness: missing TYPE line")?;
        // shape-only part (types without a codec encoding still have the documented shape)
        if let Some(info) = &parsed.infos[k] {
            match root {
                TE::Char => {
                    if info["kind"] != "primitive" || info["prim"] != "Char" {
                        return Err(format!("char is described as {info}"));
                    }
                }
                TE::Tuple(xs) if xs.len() > 18 => {
                    let want = xs.iter().filter(|x| !x.is_phantom()).count() as u64;
                    if info["kind"] != "tuple" || info["arity"].as_u64() != Some(want) {
                        return Err(format!("{}-tuple is described as {info}", xs.len()));
                    }
                    obs.class("shape_only/big_tuple");
                }
                _ => {}
            }
        }
        for (bytes, model) in &parsed.vals[k] {
            let mut d = Dec::new(&parsed.reg, bytes);
            let decoded = d.value(id);
            let fail = |what: String| -> String {
                format!(
                    "root #{k} `{}`: {what}; encoding={} model={}",
                    root.rust(&ctx),
                    vcore::p_reg::truncate(&vsupport::hex(bytes), 240),
                    vcore::p_reg::truncate(&model.to_json(), 400)
                )
            };
            let sig = value_failure_sig(&case.prog, root);
            match decoded {
                Err(e) => {
                    obs.fail_sig(sig, fail(format!("the schema-directed decoder cannot decode the value: {e}")))?;
                    continue;
                }
                Ok(v) => {
                    if d.pos != bytes.len() {
                        obs.fail_sig(sig, fail(format!("decoding from the registry consumed {} of {} bytes", d.pos, bytes.len())))?;
                        continue;
                    }
                    if !val_eq(model, &v) {
                        obs.fail_sig(sig, fail(format!("decoded value differs: decoded={}", vcore::p_reg::truncate(&format!("{v:?}"), 400))))?;
                        continue;
                    }
                }
            }
            // non-trivial: >= 2 encoded members or >= 2 variants / depth >= 2, and >= 2 bytes
            let rich = match root {
                TE::Def(i, _) => match &case.prog.defs[*i].body {
                    Body::Struct(_, fs) => fs.iter().filter(|f| !f.attr.skip).count() >= 2,
                    Body::Enum(vs) => vs.iter().filter(|v| !v.skip).count() >= 2,
                },
                other => other.depth() >= 2,
            };
            if rich && bytes.len() >= 2 {
                obs.nontrivial(&(root, bytes));
            }
            obs.extra_evals(1);
        }
        te_classes(root, obs);
    }
    if !builtin_only {
        attr_classes(&case.prog, obs);
    }
    if obs.want_sample() {
        let src = case.prog.source(true);
        let defs_only: String = src.lines().skip_while(|l| !l.starts_with("use prelude::*;")).skip(1).take_while(|l| !l.starts_with("fn main()")).filter(|l| !l.contains("fn gen(") && !l.contains("fn model(")).take(40).collect::<Vec<_>>().join("\n");
        obs.sample(json!({
            "roots": case.prog.roots.iter().map(|r| r.rust(&ctx)).collect::<Vec<_>>(),
            "definitions_excerpt": vcore::p_reg::truncate(&defs_only, 1500),
            "values_per_root": parsed.vals.iter().map(|v| v.len()).collect::<Vec<_>>(),
            "first_value": parsed.vals.iter().flatten().next().map(|(b, m)| json!({"encoding": vsupport::hex(b), "model": vcore::p_reg::truncate(&m.to_json(), 300)})),
        }));
    }
    Ok(())
}

/// C09: the compile-time description mirrors the declaration (under one docs setting)
pub fn mirror_body(case: &ProgCase, obs: &mut Obs, docs_feature: bool) -> Result<(), String> {
    let feats: &[&str] = if docs_feature { &FULL } else { &FULL_NODOCS };
    let parsed = match build_and_run(case, feats)? {
        Ok(p) => p,
        Err(reason) => {
            let sig = reason.strip_prefix("[sig:").and_then(|r| r.split(']').next()).unwrap_or("derive-rejects").to_string();
            return obs.fail_sig(&sig, reason);
        }
    };
    for (k, root) in case.prog.roots.iter().enumerate() {
        let TE::Def(i, args) = root else { continue };
        let d = &case.prog.defs[*i];
        let want = expect_for(&case.prog.defs, *i, args, docs_feature);
        let info = parsed.infos[k].as_ref().ok_or("harness: missing INFO line")?;
        let what = format!("definition `{}`", d.name);
        let strs = |v: &Value| -> Vec<String> { v.as_array().map(|a| a.iter().map(|x| x.as_str().unwrap_or("").to_string()).collect()).unwrap_or_default() };
        if strs(&info["path"]) != want.path {
            return Err(format!("[sig:path] {what}: path {:?}, expected {:?}", strs(&info["path"]), want.path));
        }
        let got_params: Vec<(String, bool)> = info["params"].as_array().map(|a| a.iter().map(|p| (p[0].as_str().unwrap_or("").to_string(), p[1].as_bool().unwrap_or(false))).collect()).unwrap_or_default();
        if got_params != want.params {
            return Err(format!("[sig:params] {what}: type parameters {:?}, expected {:?}", got_params, want.params));
        }
        if strs(&info["docs"]) != want.docs {
            return Err(format!("[sig:docs] {what}: docs {:?}, expected {:?} (capture_docs={:?}, docs feature {})", strs(&info["docs"]), want.docs, d.attr.capture_docs, docs_feature));
        }
        if info["kind"] != want.kind.as_str() {
            return Err(format!("{what}: kind {}, expected {}", info["kind"], want.kind));
        }
        let cmp_fields = |got: &Value, want: &[ExpField], what2: &str| -> Result<(), String> {
            let got = got.as_array().cloned().unwrap_or_default();
            if got.len() != want.len() {
                return Err(format!("[sig:members] {what}{what2}: {} members listed, expected {} ({:?})", got.len(), want.len(), want.iter().map(|f| &f.name).collect::<Vec<_>>()));
            }
            for (g, w) in got.iter().zip(want) {
                let gname = g["name"].as_str().map(|s| s.to_string());
                if gname != w.name {
                    return Err(format!("[sig:member-name] {what}{what2}: member named {:?}, expected {:?}", gname, w.name));
                }
                let gtn = squash(g["type_name"].as_str().unwrap_or("<none>"));
                if gtn != w.type_name_squashed {
                    return Err(format!("[sig:type-name] {what}{what2}: type name {:?}, declared type text is {:?} (whitespace removed)", gtn, w.type_name_squashed));
                }
                if strs(&g["docs"]) != w.docs {
                    return Err(format!("[sig:docs] {what}{what2}: member docs {:?}, expected {:?}", strs(&g["docs"]), w.docs));
                }
            }
            Ok(())
        };
        if want.kind == "composite" {
            cmp_fields(&info["fields"], &want.fields, "")?;
        } else {
            let gv = info["variants"].as_array().cloned().unwrap_or_default();
            if gv.len() != want.variants.len() {
                return Err(format!("[sig:variants] {what}: {} variants listed, expected {}", gv.len(), want.variants.len()));
            }
            for (g, w) in gv.iter().zip(&want.variants) {
                if g["name"].as_str() != Some(w.name.as_str()) {
                    return Err(format!("[sig:variants] {what}: variant {:?}, expected {:?}", g["name"], w.name));
                }
                if d.encode && g["index"].as_u64() != Some(w.index as u64) {
                    return Err(format!("[sig:variant-index] {what}: variant {} has index {}, the codec uses {}", w.name, g["index"], w.index));
                }
                if strs(&g["docs"]) != w.docs {
                    return Err(format!("[sig:docs] {what}: variant {} docs {:?}, expected {:?}", w.name, strs(&g["docs"]), w.docs));
                }
                cmp_fields(&g["fields"], &w.fields, &format!(" variant {}", w.name))?;
            }
        }
        match parsed.members[k] {
            Some((true, _, _)) => {}
            Some((false, g, w)) => return Err(format!("[sig:member-type] {what}: the member types are not the declared types (listed {g}, declared {w}; compact members as Compact<T>)")),
            None => return Err("harness: missing MEMBERS line".into()),
        }
        if parsed.params[k] != Some(true) {
            return Err(format!("[sig:param-type] {what}: the parameter types are not the instantiation's arguments / None for skipped"));
        }
        let has_attr = !d.docs.is_empty() || d.attr != ItemAttr::default() || d.all_fields().iter().any(|f| !f.docs.is_empty() || f.attr != FieldAttr::default());
        if has_attr && !d.all_fields().is_empty() {
            obs.nontrivial(&(d, docs_feature));
        }
        let any_docs = !want.docs.is_empty() || want.fields.iter().any(|f| !f.docs.is_empty()) || want.variants.iter().any(|v| !v.docs.is_empty() || v.fields.iter().any(|f| !f.docs.is_empty()));
        if any_docs {
            obs.class("docs/captured");
        }
    }
    attr_classes(&case.prog, obs);
    obs.class(if docs_feature { "cfg/docs_on" } else { "cfg/docs_off" });
    if obs.want_sample() {
        let src = case.prog.source(true);
        let defs_only: String = src.lines().skip_while(|l| !l.starts_with("use prelude::*;")).skip(1).take_while(|l| !l.starts_with("fn main()")).take(45).collect::<Vec<_>>().join("\n");
        obs.sample(json!({"docs_feature": docs_feature, "definitions_excerpt": vcore::p_reg::truncate(&defs_only, 1800), "type_info_of_first": parsed.infos.first()}));
    }
    Ok(())
}

/// C17 (derive and built-in part): a PhantomData member is never listed anywhere
pub fn phantom_body(case: &ProgCase, obs: &mut Obs) -> Result<(), String> {
    let parsed = match build_and_run(case, &FULL)? {
        Ok(p) => p,
        Err(reason) => {
            let sig = reason.strip_prefix("[sig:").and_then(|r| r.split(']').next()).unwrap_or("derive-rejects").to_string();
            return obs.fail_sig(&sig, reason);
        }
    };
    let phantom_ids: Vec<u32> = parsed.reg.types.iter().filter(|t| t.ty.path == vec!["PhantomData".to_string()] && matches!(&t.ty.def, MDef::Composite(fs) if fs.is_empty())).map(|t| t.id).collect();
    let mut phantom_sources = 0;
    for t in &parsed.reg.types {
        let member_refs: Vec<u32> = match &t.ty.def {
            MDef::Composite(fs) => fs.iter().map(|f| f.ty).collect(),
            MDef::Variant(vs) => vs.iter().flat_map(|v| v.fields.iter().map(|f| f.ty)).collect(),
            MDef::Tuple(ts) => ts.clone(),
            _ => vec![],
        };
        for r in member_refs {
            if phantom_ids.contains(&r) {
                return Err(format!("[sig:phantom-listed] entry {} ({:?}, {}) lists a member whose type is PhantomData", t.id, t.ty.path, t.ty.def.kind()));
            }
        }
    }
    for d in &case.prog.defs {
        for f in d.all_fields() {
            if f.ty.any(&|t| matches!(t, TE::Phantom(_))) {
                phantom_sources += 1;
            }
        }
    }
    for r in &case.prog.roots {
        if r.any(&|t| matches!(t, TE::Phantom(_))) {
            phantom_sources += 1;
        }
    }
    // a tuple keeps every element that is not PhantomData, in order (only those are erased)
    for (k, root) in case.prog.roots.iter().enumerate() {
        if let TE::Tuple(xs) = root {
            let want = xs.iter().filter(|x| !x.is_phantom()).count() as u64;
            if let Some(info) = &parsed.infos[k] {
                if info["kind"] != "tuple" || info["arity"].as_u64() != Some(want) {
                    return Err(format!("[sig:tuple-elements] a {}-tuple with {} elements that are not PhantomData is described as {info}", xs.len(), want));
                }
            }
            if xs.iter().position(|e| e.is_phantom()).map_or(false, |i| xs[i + 1..].iter().any(|e| !e.is_phantom())) {
                obs.class("tuple/phantom_before_real_element");
            }
        }
    }
    // the member counts of every definition equal the declaration minus skipped and PhantomData members
    for (k, root) in case.prog.roots.iter().enumerate() {
        if let TE::Def(i, _) = root {
            if let Some((ok, g, w)) = parsed.members[k] {
                if !ok {
                    return Err(format!("[sig:member-type] definition `{}` lists {g} members, the declaration has {w} that are neither skipped nor PhantomData", case.prog.defs[*i].name));
                }
            }
        }
    }
    if phantom_sources > 0 {
        obs.nontrivial(&case.prog);
        obs.class("program/has_phantom");
    }
    obs.class_n("phantom_positions", phantom_sources);
    if obs.want_sample() {
        let ctx = case.prog.root_ctx();
        obs.sample(json!({"roots": case.prog.roots.iter().map(|r| r.rust(&ctx)).collect::<Vec<_>>(), "phantom_positions": phantom_sources, "registry_entries": parsed.reg.types.len(), "phantom_entry_present": !phantom_ids.is_empty()}));
    }
    Ok(())
}

pub fn prog_case(n_defs: std::ops::Range<usize>, o: gen::DefOpts, n_entropy: usize) -> BoxedStrategy<ProgCase> {
    (gen::program(n_defs, o), gen::entropies(n_entropy)).prop_map(|(prog, entropies)| ProgCase { prog, entropies }).boxed()
}

pub fn builtin_case(enc: bool, n_entropy: usize) -> BoxedStrategy<ProgCase> {
    (gen::builtin_program(enc), gen::entropies(n_entropy)).prop_map(|(prog, entropies)| ProgCase { prog, entropies }).boxed()
}


// ------------------------------------------------------------- C01 / C02 / C11 on real Rust types

fn run_or_fail(case: &ProgCase, obs: &mut Obs) -> Result<Option<Parsed>, String> {
    match build_and_run(case, &FULL)? {
        Ok(p) => Ok(Some(p)),
        Err(reason) => {
            let sig = reason.strip_prefix("[sig:").and_then(|r| r.split(']').next()).unwrap_or("derive-rejects").to_string();
            obs.fail_sig(&sig, reason)?;
            Ok(None)
        }
    }
}

/// C01 on registries of derived / built-in types: dense, closed, ids handed out resolve, and
/// retain on it (mask from the case's entropy) is again dense and closed
pub fn c01_prog_body(case: &ProgCase, obs: &mut Obs) -> Result<(), String> {
    let Some(parsed) = run_or_fail(case, obs)? else { return Ok(()) };
    wf_model(&parsed.reg).map_err(|e| format!("[sig:registry-not-closed] registry of real Rust types: {e}"))?;
    let lib = to_lib(&parsed.reg);
    wf_lib(&lib).map_err(|e| format!("[sig:registry-not-closed] registry of real Rust types: {e}"))?;
    for (k, id) in parsed.type_ids.iter().enumerate() {
        let id = id.ok_or("harness: missing TYPE line")?;
        if lib.resolve(id).is_none() {
            return Err(format!("id {id} returned for root #{k} does not resolve"));
        }
    }
    let mask: Vec<u8> = case.entropies.first().cloned().unwrap_or_default();
    let accept = |id: u32| -> bool {
        if mask.is_empty() {
            id % 2 == 0
        } else {
            (mask[(id as usize / 8) % mask.len()] >> (id % 8)) & 1 == 1
        }
    };
    if !parsed.reg.types.is_empty() {
        let (_, out) = vcore::p_reg::check_retain(&parsed.reg, &accept).map_err(|e| format!("retain on a registry of real Rust types: {e}"))?;
        wf_model(&out)?;
    }
    if parsed.reg.types.len() >= 2 && parsed.reg.types.iter().any(|t| !t.ty.refs().is_empty()) {
        obs.nontrivial(&parsed.reg_bytes);
    }
    attr_classes(&case.prog, obs);
    if parsed.reg.types.iter().any(|t| t.ty.refs().contains(&t.id)) {
        obs.class("graph/self_loop");
    }
    if obs.want_sample() {
        let ctx = case.prog.root_ctx();
        obs.sample(json!({"roots": case.prog.roots.iter().map(|r| r.rust(&ctx)).collect::<Vec<_>>(), "registry_entries": parsed.reg.types.len(), "ids": parsed.type_ids}));
    }
    Ok(())
}

/// C02 on real Rust types: the in-program coinductive comparison must succeed
pub fn c02_prog_body(case: &ProgCase, obs: &mut Obs) -> Result<(), String> {
    let Some(parsed) = run_or_fail(case, obs)? else { return Ok(()) };
    match &parsed.sim {
        Some(Ok(n)) => {
            if *n >= 2 {
                obs.nontrivial(&(&case.prog, &parsed.reg_bytes));
            }
            obs.class_n("type_id_pairs_compared", *n as u64);
        }
        Some(Err(e)) => return Err(format!("[sig:unfaithful] the portable registry is not a faithful image of type_info(): {e}")),
        None => return Err("harness: missing SIM line".into()),
    }
    attr_classes(&case.prog, obs);
    for r in &case.prog.roots {
        te_classes(r, obs);
    }
    if obs.want_sample() {
        let ctx = case.prog.root_ctx();
        obs.sample(json!({"roots": case.prog.roots.iter().map(|r| r.rust(&ctx)).collect::<Vec<_>>(), "pairs_compared": parsed.sim, "registry_entries": parsed.reg.types.len()}));
    }
    Ok(())
}

/// C11 on real Rust types: a second process prints the same bytes; the roots registered in another
/// order give an isomorphic registry
pub fn c11_prog_body(case: &ProgCase, obs: &mut Obs) -> Result<(), String> {
    let Some(parsed) = run_or_fail(case, obs)? else { return Ok(()) };
    // same program, another process
    let a = farm::anchor(&FULL)?;
    let out = farm::compile(&a, &case.prog.source(true), true)?;
    let run2 = farm::run(out.bin.as_ref().ok_or("no binary")?, &[], Duration::from_secs(30))?;
    let reg2 = run2.stdout.lines().find_map(|l| l.strip_prefix("REG ")).map(vsupport::unhex).ok_or("harness: no REG line on the second run")?;
    if reg2 != parsed.reg_bytes {
        return Err("[sig:not-reproducible] two processes running the same registrations print different registries".into());
    }
    // another order of the roots
    let n = case.prog.roots.len();
    let mut nontrivial = false;
    if n >= 2 {
        let mut order: Vec<usize> = (0..n).collect();
        let keys: Vec<u8> = case.entropies.first().cloned().unwrap_or_default();
        order.sort_by_key(|i| keys.get(*i).copied().unwrap_or((*i as u8).wrapping_mul(151)));
        if order.iter().enumerate().all(|(p, i)| p == *i) {
            order.reverse();
        }
        let permuted = ProgCase { prog: Program { defs: case.prog.defs.clone(), roots: order.iter().map(|i| case.prog.roots[*i].clone()).collect() }, entropies: vec![] };
        let Some(other) = run_or_fail(&permuted, obs)? else { return Ok(()) };
        if other.reg.types.len() != parsed.reg.types.len() {
            return Err(format!("[sig:order-dependent] registering the same roots in another order gives {} entries instead of {}", other.reg.types.len(), parsed.reg.types.len()));
        }
        let pairs: Vec<(u32, u32)> = order.iter().enumerate().map(|(pos, i)| (parsed.type_ids[*i].unwrap_or(0), other.type_ids[pos].unwrap_or(0))).collect();
        let map = vcore::p_hist::iso_extend(&parsed.reg, &other.reg, &pairs).map_err(|e| format!("[sig:order-dependent] registries of two registration orders are not isomorphic: {e}"))?;
        if map.len() != parsed.reg.types.len() {
            return Err("[sig:order-dependent] the root-induced renaming does not cover every entry".into());
        }
        nontrivial = true;
        if other.reg_bytes != parsed.reg_bytes {
            obs.class("permutation/changes_numbering");
        }
    }
    if nontrivial {
        obs.nontrivial(&(&case.prog, &parsed.reg_bytes));
    }
    attr_classes(&case.prog, obs);
    if obs.want_sample() {
        let ctx = case.prog.root_ctx();
        obs.sample(json!({"roots": case.prog.roots.iter().map(|r| r.rust(&ctx)).collect::<Vec<_>>(), "registry_entries": parsed.reg.types.len(), "second_process_identical": true}));
    }
    Ok(())
}

/// programs mixing derived definitions with built-in roots
pub fn mixed_case(n_entropy: usize) -> BoxedStrategy<ProgCase> {
    let usual = (gen::program(1..4, gen::DefOpts { encode: false, bitvec: true, rich_attrs: false, encoded_as: false }), gen::builtin_program(false), gen::entropies(n_entropy))
        .prop_map(|(mut p, b, entropies)| {
            p.roots.extend(b.roots);
            ProgCase { prog: p, entropies }
        });
    // now and then a deep, branching graph (recursion depth, numbering order)
    let deep = (gen::deep_program(), gen::entropies(n_entropy)).prop_map(|(p, entropies)| ProgCase { prog: p, entropies });
    prop_oneof![9 => usual, 1 => deep].boxed()
}
