//! C20 — ill-formed definitions are rejected at compile time. Every negative program carries one
//! defect and has a positive twin differing only in that defect; rustc is the oracle.

use crate::farm;
use crate::p_values::FULL;
use proptest::prelude::*;
use serde::{Deserialize, Serialize};
use serde_json::json;
use vcore::runner::*;

#[derive(Clone, Debug, PartialEq, Eq, Hash, Serialize, Deserialize)]
pub struct NCase {
    /// which defect
    pub kind: u8,
    /// sub-variation of the defect (position, spelling, constructor used)
    pub variation: u8,
    /// portable builders instead of compile-time ones (builder defects)
    pub portable: bool,
    /// harmless setters placed before / around the defect
    pub decor: u8,
    /// further variation (generated multi-parameter definitions)
    #[serde(default)]
    pub salt: u16,
}

pub const N_KINDS: u8 = 13;

pub struct Programs {
    pub negative: String,
    pub twin: String,
    pub builder: bool,
    pub what: &'static str,
    pub sig: &'static str,
}

const HEAD: &str = r#"#![allow(dead_code, unused_imports, unused_variables, unused_must_use)]
use scale_info::{build::*, build::state, build::field_state, build::variant_state, form::{MetaForm, PortableForm}, meta_type, Path, Type, TypeInfo, TypeParameter, MetaType};
fn assert_type_info<X: TypeInfo + 'static>() {}
"#;

fn s(portable: bool, lit: &str) -> String {
    if portable {
        format!("\"{lit}\".to_string()")
    } else {
        format!("\"{lit}\"")
    }
}

fn path(portable: bool) -> String {
    if portable {
        "Path::from_segments_unchecked(vec![\"m\".to_string(), \"X\".to_string()])".into()
    } else {
        "Path::new(\"X\", \"m\")".into()
    }
}

fn builder(portable: bool) -> &'static str {
    if portable {
        "Type::builder_portable()"
    } else {
        "Type::builder()"
    }
}

fn form(portable: bool) -> &'static str {
    if portable {
        "PortableForm"
    } else {
        "MetaForm"
    }
}

/// a correct field closure body for the given naming
fn good_field(portable: bool, named: bool, decor: u8) -> String {
    let ty = if portable { ".ty(1u32)".to_string() } else { ".ty::<u8>()".to_string() };
    let name = if named { format!(".name({})", s(portable, "a")) } else { String::new() };
    let tn = if decor % 2 == 1 { format!(".type_name({})", s(portable, "u8")) } else { String::new() };
    match decor % 3 {
        0 => format!("f{ty}{name}{tn}"),
        1 => format!("f{name}{ty}{tn}"),
        _ => format!("f{tn}{name}{ty}"),
    }
}

fn field_method(portable: bool) -> &'static str {
    if portable {
        "field_portable"
    } else {
        "field"
    }
}

fn type_decor(portable: bool, decor: u8) -> String {
    // harmless type-level setters
    match decor % 4 {
        0 => String::new(),
        1 => {
            if portable {
                ".type_params(vec![TypeParameter::new_portable(\"T\".to_string(), None)])".into()
            } else {
                ".type_params(vec![TypeParameter::new(\"T\", None)])".into()
            }
        }
        2 => {
            if portable {
                String::new()
            } else {
                ".docs_always(&[\"d\"])".into()
            }
        }
        _ => {
            if portable {
                ".type_params(Vec::new())".into()
            } else {
                ".docs(&[\"d\"]).type_params(vec![])".into()
            }
        }
    }
}

fn wrap_main(body: &str) -> String {
    format!("{HEAD}fn main() {{\n{body}\n}}\n")
}

/// a second, well-formed type built in the same program before the defective one (the defect must
/// be rejected wherever it stands)
fn with_neighbour(body: &str, portable: bool, decor: u8) -> String {
    if decor / 32 % 2 == 0 {
        return body.to_string();
    }
    let f = form(portable);
    let fm = field_method(portable);
    format!(
        "    let _ok: Type<{f}> = {}.path({}).composite(Fields::named().{fm}(|f| {}).{fm}(|f| {}));\n{body}",
        builder(portable),
        path(portable),
        good_field(portable, true, decor),
        good_field(portable, true, decor / 3)
    )
}

fn derive_prog(item: &str, ty: &str) -> String {
    format!("{HEAD}pub struct NoInfo;\n{item}\nfn main() {{ assert_type_info::<{ty}>(); }}\n")
}

/// the same item in another syntactic shape (named struct -> tuple struct / enum), so that the
/// defect is met in every kind of derive input
fn reshape(item: &str, decor: u8) -> String {
    match decor / 16 % 4 {
        1 => item.replace("pub struct X<T> { a: T }", "pub struct X<T>(T);").replace("pub struct X { a: u8 }", "pub struct X(u8);"),
        2 => item.replace("pub struct X<T> { a: T }", "pub enum X<T> { A(T), B { b: u8 }, C }").replace("pub struct X { a: u8 }", "pub enum X { A(u8), B }"),
        3 => item.replace("pub struct X<T> { a: T }", "pub struct X<T> { a: T, b: Vec<T>, #[codec(skip)] c: u8 }").replace("pub struct X { a: u8 }", "pub struct X { a: u8, /// field doc\n b: u16 }"),
        _ => item.to_string(),
    }
}

impl NCase {
    pub fn programs(&self) -> Programs {
        let mut pr = self.programs_inner();
        if pr.builder && self.decor / 32 % 2 == 1 {
            let nb = with_neighbour("", self.portable, self.decor);
            pr.negative = pr.negative.replacen("fn main() {\n", &format!("fn main() {{\n{nb}"), 1);
            pr.twin = pr.twin.replacen("fn main() {\n", &format!("fn main() {{\n{nb}"), 1);
        }
        pr
    }

    fn programs_inner(&self) -> Programs {
        let p = self.portable;
        let d = self.decor;
        let v = self.variation;
        let b = builder(p);
        let f = form(p);
        let fm = field_method(p);
        let td = type_decor(p, d);
        match self.kind % N_KINDS {
            // ---------------------------------------------------------------- builder defects
            0 => {
                // a type without a path
                let tail = if v % 2 == 0 { ".composite(Fields::unit())".to_string() } else { format!(".variant(Variants::<{f}>::new())") };
                match v % 6 {
                    4 | 5 => {
                        // the same state reached through Default::default()
                        Programs {
                            negative: wrap_main(&format!("    let t: Type<{f}> = TypeBuilder::<{f}, state::PathAssigned>::default(){td}{tail};")),
                            twin: wrap_main(&format!("    let t: Type<{f}> = TypeBuilder::<{f}, state::PathNotAssigned>::default(){td}.path({}){tail};", path(p))),
                            builder: true,
                            what: "type without a path (builder state obtained from Default)",
                            sig: "default-typestate",
                        }
                    }
                    _ => Programs {
                        negative: wrap_main(&format!("    let t: Type<{f}> = {b}{td}{tail};")),
                        twin: wrap_main(&format!("    let t: Type<{f}> = {b}{td}.path({}){tail};", path(p))),
                        builder: true,
                        what: "type without a path",
                        sig: "builder-accepts",
                    },
                }
            }
            1 => {
                // a variant without an index
                let fields = match v % 3 {
                    0 => String::new(),
                    1 => format!(".fields(Fields::unnamed().{fm}(|f| {}))", good_field(p, false, d)),
                    _ => ".discriminant(3)".to_string(),
                };
                // the builder handed to the closure, or a fresh one from the public constructor
                let (vb, arg) = if v / 3 % 2 == 1 { (format!("VariantBuilder::new({})", s(p, "A")), "_v") } else { ("v".to_string(), "v") };
                let neg = format!("    let t: Type<{f}> = {b}.path({}){td}.variant(Variants::new().variant({}, |{arg}| {vb}{fields}));", path(p), s(p, "A"));
                let twin = format!("    let t: Type<{f}> = {b}.path({}){td}.variant(Variants::new().variant({}, |{arg}| {vb}{fields}.index(1)));", path(p), s(p, "A"));
                Programs { negative: wrap_main(&neg), twin: wrap_main(&twin), builder: true, what: "variant without an index", sig: "builder-accepts" }
            }
            2 => {
                // a field without a type
                let named = v % 2 == 0;
                let ctor = if named { "Fields::named()" } else { "Fields::unnamed()" };
                let name = if named { format!(".name({})", s(p, "a")) } else { String::new() };
                let tn = format!(".type_name({})", s(p, "u8"));
                match v % 6 {
                    4 | 5 => Programs {
                        negative: wrap_main(&format!(
                            "    let fb = FieldBuilder::<{f}, field_state::Name{}Assigned, field_state::TypeAssigned>::default(){tn};\n    let t: Type<{f}> = {b}.path({}){td}.composite({ctor}.{fm}(move |_| FieldBuilder::<{f}, field_state::Name{}Assigned, field_state::TypeAssigned>::default(){tn}));",
                            if named { "" } else { "Not" },
                            path(p),
                            if named { "" } else { "Not" }
                        )),
                        twin: wrap_main(&format!("    let t: Type<{f}> = {b}.path({}){td}.composite({ctor}.{fm}(|f| {}));", path(p), good_field(p, named, d))),
                        builder: true,
                        what: "field without a type (builder state obtained from Default)",
                        sig: "default-typestate",
                    },
                    3 => Programs {
                        // a fresh builder from the public constructor instead of the one handed in
                        negative: wrap_main(&format!("    let t: Type<{f}> = {b}.path({}){td}.composite({ctor}.{fm}(|_f| FieldBuilder::new(){name}{tn}));", path(p))),
                        twin: wrap_main(&format!("    let t: Type<{f}> = {b}.path({}){td}.composite({ctor}.{fm}(|f| {}));", path(p), good_field(p, named, d))),
                        builder: true,
                        what: "field without a type (builder from FieldBuilder::new())",
                        sig: "builder-accepts",
                    },
                    _ => Programs {
                        negative: wrap_main(&format!("    let t: Type<{f}> = {b}.path({}){td}.composite({ctor}.{fm}(|f| f{name}{tn}));", path(p))),
                        twin: wrap_main(&format!("    let t: Type<{f}> = {b}.path({}){td}.composite({ctor}.{fm}(|f| {}));", path(p), good_field(p, named, d))),
                        builder: true,
                        what: "field without a type",
                        sig: "builder-accepts",
                    },
                }
            }
            3 => {
                // a named field among unnamed ones (struct or variant position)
                let bad = good_field(p, true, d);
                let good = good_field(p, false, d);
                let wrap = |inner: &str| {
                    if v % 2 == 0 {
                        format!("    let t: Type<{f}> = {b}.path({}){td}.composite(Fields::unnamed().{fm}(|f| {}).{fm}(|f| {inner}));", path(p), good)
                    } else {
                        format!("    let t: Type<{f}> = {b}.path({}){td}.variant(Variants::new().variant({}, |v| v.index(0).fields(Fields::unnamed().{fm}(|f| {inner}))));", path(p), s(p, "A"))
                    }
                };
                Programs { negative: wrap_main(&wrap(&bad)), twin: wrap_main(&wrap(&good)), builder: true, what: "named field among unnamed ones", sig: "builder-accepts" }
            }
            4 => {
                // an unnamed field among named ones
                let bad = good_field(p, false, d);
                let good = good_field(p, true, d);
                let wrap = |inner: &str| {
                    if v % 2 == 0 {
                        format!("    let t: Type<{f}> = {b}.path({}){td}.composite(Fields::named().{fm}(|f| {}).{fm}(|f| {inner}));", path(p), good)
                    } else {
                        format!("    let t: Type<{f}> = {b}.path({}){td}.variant(Variants::new().variant({}, |v| v.index(0).fields(Fields::named().{fm}(|f| {inner}))));", path(p), s(p, "A"))
                    }
                };
                match v % 6 {
                    4 | 5 => {
                        let ty = if p { ".ty(1u32)" } else { ".ty::<u8>()" };
                        let via_default = format!("FieldBuilder::<{f}, field_state::NameAssigned, field_state::TypeNotAssigned>::default(){ty}");
                        Programs {
                            negative: wrap_main(&format!("    let t: Type<{f}> = {b}.path({}){td}.composite(Fields::named().{fm}(|_f| {via_default}));", path(p))),
                            twin: wrap_main(&wrap(&good)),
                            builder: true,
                            what: "unnamed field among named ones (builder state obtained from Default)",
                            sig: "default-typestate",
                        }
                    }
                    _ => Programs { negative: wrap_main(&wrap(&bad)), twin: wrap_main(&wrap(&good)), builder: true, what: "unnamed field among named ones", sig: "builder-accepts" },
                }
            }
            5 => {
                // a member on Fields::unit()
                let named = v % 2 == 0;
                let fld = good_field(p, named, d);
                Programs {
                    negative: wrap_main(&format!("    let t: Type<{f}> = {b}.path({}){td}.composite(Fields::unit().{fm}(|f| {fld}));", path(p))),
                    twin: wrap_main(&format!("    let t: Type<{f}> = {b}.path({}){td}.composite(Fields::{}().{fm}(|f| {fld}));", path(p), if named { "named" } else { "unnamed" })),
                    builder: true,
                    what: "member added to a unit field set",
                    sig: "builder-accepts",
                }
            }
            // ----------------------------------------------------------------- derive defects
            6 => {
                // unions
                let attr = ["", "#[scale_info(capture_docs = \"never\")]\n", "#[repr(C)]\n"][(v % 3) as usize];
                Programs {
                    negative: derive_prog(&format!("#[derive(TypeInfo)]\n{attr}pub union X {{ a: u8, b: u32 }}"), "X"),
                    twin: derive_prog(&format!("#[derive(TypeInfo)]\n{}pub struct X {{ a: u8, b: u32 }}", if v % 3 == 2 { "#[repr(C)]\n" } else { attr }), "X"),
                    builder: false,
                    what: "union",
                    sig: "derive-accepts",
                }
            }
            7 | 8 | 9 if v >= 160 => {
                // generated attribute layouts: 1-4 scale_info lists holding known keys, with either a
                // second occurrence of one once-only key or an unknown key dropped at any position
                let (neg, twin, what) = attr_layout_gen(self.kind % N_KINDS == 7, self.salt, v, d);
                Programs { negative: derive_prog(&neg, "X<u8>"), twin: derive_prog(&twin, "X<u8>"), builder: false, what, sig: "derive-accepts" }
            }
            7 => {
                // unknown item-level scale_info attribute
                let unk = ["foo", "rename = \"x\"", "skip", "bound(T: TypeInfo)", "capture_doc = \"always\"", "replace_segments(\"a\", \"b\")", "crate_path = scale_info", "index = 3"][(v % 8) as usize];
                let other = ["", "capture_docs = \"always\", ", "replace_segment(\"m\", \"n\"), "][(d % 3) as usize];
                let (first, second) = if d % 2 == 0 { (other.to_string(), format!("{unk}")) } else { (format!("{unk}, "), other.trim_end_matches(", ").to_string()) };
                let neg_attr = format!("#[scale_info({first}{second})]").replace(", )", ")");
                let twin_attr = if other.is_empty() { String::new() } else { format!("#[scale_info({})]", other.trim_end_matches(", ")) };
                Programs {
                    negative: derive_prog(&reshape(&format!("#[derive(TypeInfo)]\n{neg_attr}\npub struct X<T> {{ a: T }}"), d), "X<u8>"),
                    twin: derive_prog(&reshape(&format!("#[derive(TypeInfo)]\n{twin_attr}\npub struct X<T> {{ a: T }}"), d), "X<u8>"),
                    builder: false,
                    what: "unknown scale_info attribute",
                    sig: "derive-accepts",
                }
            }
            8 | 9 => {
                // a repeated bounds / skip_type_params / capture_docs / crate attribute
                let (a1, a2) = match v % 4 {
                    0 => ("bounds(T: TypeInfo + 'static)", "bounds(T: TypeInfo + 'static)"),
                    1 => ("skip_type_params(T)", "skip_type_params(T)"),
                    2 => ("capture_docs = \"always\"", "capture_docs = \"never\""),
                    _ => ("crate = ::scale_info", "crate = scale_info"),
                };
                let other = "replace_segment(\"m\", \"n\")";
                let neg = match d % 4 {
                    0 => format!("#[scale_info({a1}, {a2})]"),
                    1 => format!("#[scale_info({a1})]\n#[scale_info({a2})]"),
                    2 => format!("#[scale_info({a1}, {other}, {a2})]"),
                    _ => format!("#[scale_info({a1})]\n/// docs in between\n#[scale_info({other})]\n#[scale_info({a2})]"),
                };
                let twin = match d % 4 {
                    0 | 1 => format!("#[scale_info({a1})]"),
                    _ => format!("#[scale_info({a1}, {other})]"),
                };
                let body = if v % 4 == 1 { "pub struct X<T> { a: core::marker::PhantomData<T> }" } else { "pub struct X<T> { a: T }" };
                Programs {
                    negative: derive_prog(&reshape(&format!("#[derive(TypeInfo)]\n{neg}\n{body}"), d), "X<u8>"),
                    twin: derive_prog(&reshape(&format!("#[derive(TypeInfo)]\n{twin}\n{body}"), d), "X<u8>"),
                    builder: false,
                    what: "repeated scale_info attribute",
                    sig: "derive-accepts",
                }
            }
            10 => {
                // an invalid capture_docs value
                let bad = ["sometimes", "", "alwayss", "yes", "true", "default ", "neve", "al ways"][(v % 8) as usize];
                let good = ["always", "never", "default"][(d % 3) as usize];
                Programs {
                    negative: derive_prog(&reshape(&format!("/// doc\n#[derive(TypeInfo)]\n#[scale_info(capture_docs = \"{bad}\")]\npub struct X {{ a: u8 }}"), d), "X"),
                    twin: derive_prog(&reshape(&format!("/// doc\n#[derive(TypeInfo)]\n#[scale_info(capture_docs = \"{good}\")]\npub struct X {{ a: u8 }}"), d), "X"),
                    builder: false,
                    what: "invalid capture_docs value",
                    sig: "derive-accepts",
                }
            }
            _ if v >= 128 => {
                // generated: 2..4 type parameters, each bounded in the attribute, skipped, both, or
                // (at least one) neither; inline bounds make the definition compile were it not
                // for the derive's own check, so only that check can reject it
                let (neg, twin, ty) = bounds_gen(self.salt, v, d);
                Programs { negative: derive_prog(&neg, &ty), twin: derive_prog(&twin, &ty), builder: false, what: "bounds attribute leaving one of several parameters unbound", sig: "derive-accepts" }
            }
            _ => {
                // a bounds attribute that leaves a non-skipped type parameter without a bound
                let (neg, twin, ty) = match v % 7 {
                    5 => (
                        "pub trait Tr { type A; }\nimpl Tr for u8 { type A = u16; }\n#[derive(TypeInfo)]\n#[scale_info(bounds(T::A: TypeInfo + 'static))]\npub struct X<T: Tr + TypeInfo + 'static> { a: T::A }",
                        "pub trait Tr { type A; }\nimpl Tr for u8 { type A = u16; }\n#[derive(TypeInfo)]\n#[scale_info(bounds(T::A: TypeInfo + 'static, T: TypeInfo + 'static))]\npub struct X<T: Tr + TypeInfo + 'static> { a: T::A }",
                        "X<u8>",
                    ),
                    6 => (
                        "pub trait Tr { type A; }\nimpl Tr for u8 { type A = u16; }\n#[derive(TypeInfo)]\n#[scale_info(bounds(<T as Tr>::A: TypeInfo + 'static, Option<T>: TypeInfo + 'static))]\npub enum X<T: Tr + TypeInfo + 'static> { V(<T as Tr>::A), W(Option<T>) }",
                        "pub trait Tr { type A; }\nimpl Tr for u8 { type A = u16; }\n#[derive(TypeInfo)]\n#[scale_info(bounds(<T as Tr>::A: TypeInfo + 'static, Option<T>: TypeInfo + 'static, T: TypeInfo + 'static))]\npub enum X<T: Tr + TypeInfo + 'static> { V(<T as Tr>::A), W(Option<T>) }",
                        "X<u8>",
                    ),
                    0 => ("#[scale_info(bounds(U: TypeInfo + 'static))]\npub struct X<T, U> { a: T, b: U }", "#[scale_info(bounds(U: TypeInfo + 'static, T: TypeInfo + 'static))]\npub struct X<T, U> { a: T, b: U }", "X<u8, u16>"),
                    1 => ("#[scale_info(bounds())]\npub struct X<T> { a: T }", "#[scale_info(bounds(T: TypeInfo + 'static))]\npub struct X<T> { a: T }", "X<u8>"),
                    2 => ("#[scale_info(bounds(Vec<T>: TypeInfo + 'static))]\npub struct X<T> { a: Vec<T> }", "#[scale_info(bounds(Vec<T>: TypeInfo + 'static, T: TypeInfo + 'static))]\npub struct X<T> { a: Vec<T> }", "X<u8>"),
                    3 => (
                        "#[scale_info(bounds(T: TypeInfo + 'static), skip_type_params(T))]\npub struct X<T, U> { a: T, b: core::marker::PhantomData<U> }",
                        "#[scale_info(bounds(T: TypeInfo + 'static), skip_type_params(U))]\npub struct X<T, U> { a: T, b: core::marker::PhantomData<U> }",
                        "X<u8, NoInfo>",
                    ),
                    _ => ("#[scale_info(bounds('a: 'static))]\npub struct X<'a, T> { a: &'a T }", "#[scale_info(bounds('a: 'static, T: TypeInfo + 'static))]\npub struct X<'a, T> { a: &'a T }", "X<'static, u8>"),
                };
                let wrap = |item: &str| if item.contains("#[derive(TypeInfo)]") { item.to_string() } else { format!("#[derive(TypeInfo)]\n{item}") };
                Programs { negative: derive_prog(&wrap(neg), ty), twin: derive_prog(&wrap(twin), ty), builder: false, what: "bounds attribute leaving a parameter unbound", sig: "derive-accepts" }
            }
        }
    }
}

/// (negative item, positive twin, description): known keys spread over 1-4 `#[scale_info(..)]`
/// lists (other attributes and doc comments in between), plus the defect at a generated position
fn attr_layout_gen(unknown: bool, salt: u16, v: u8, d: u8) -> (String, String, &'static str) {
    // once-only keys with two spellings each (a repetition need not be literally equal)
    let once: [(&str, &str); 4] = [
        ("bounds(T: TypeInfo + 'static)", "bounds(T: ::scale_info::TypeInfo + 'static)"),
        ("skip_type_params(T)", "skip_type_params(T)"),
        ("capture_docs = \"always\"", "capture_docs = \"default\""),
        ("crate = ::scale_info", "crate = scale_info"),
    ];
    let unknown_keys = ["foo", "rename = \"x\"", "skip", "bound(T: TypeInfo)", "capture_doc = \"always\"", "replace_segments(\"a\", \"b\")", "crate_path = scale_info", "index = 3", "Bounds(T: TypeInfo)", "docs", "compact", "skip_type_param(T)"];
    let n_lists = 1 + (salt % 4) as usize;
    let mut lists: Vec<Vec<String>> = vec![vec![]; n_lists];
    // which once-only keys are present (bit mask), where each goes
    let present = (salt / 4 % 16) as u8;
    let dup_key = (v as usize) % 4;
    let mut r = salt / 64;
    let mut keys: Vec<usize> = (0..4).filter(|k| present >> k & 1 == 1 || (!unknown && *k == dup_key)).collect();
    // bounds and skip_type_params on the same parameter exclude each other in a sensible twin
    if keys.contains(&0) && keys.contains(&1) {
        let drop = if !unknown && dup_key == 1 { 0 } else { 1 };
        keys.retain(|k| *k != drop);
    }
    for k in keys {
        lists[(r % n_lists as u16) as usize].push(once[k].0.to_string());
        r /= 4;
    }
    // replace_segment may legally repeat: sprinkle some
    for i in 0..(d % 3) as usize {
        lists[(i + d as usize) % n_lists].push(format!("replace_segment(\"m{i}\", \"n\")"));
    }
    let twin_lists = lists.clone();
    // the defect
    let at_list = (d as usize / 3) % n_lists;
    let defect = if unknown { unknown_keys[(v as usize / 4) % unknown_keys.len()].to_string() } else { once[dup_key].1.to_string() };
    let pos = if lists[at_list].is_empty() { 0 } else { (d as usize / 12) % (lists[at_list].len() + 1) };
    lists[at_list].insert(pos, defect);
    let skipped = lists.iter().flatten().any(|a| a.starts_with("skip_type_params"));
    let render = |ls: &Vec<Vec<String>>| -> String {
        let mut out = String::from("#[derive(TypeInfo)]\n");
        for (i, l) in ls.iter().enumerate() {
            if l.is_empty() {
                continue;
            }
            out.push_str(&format!("#[scale_info({})]\n", l.join(", ")));
            match (i + d as usize) % 4 {
                0 => out.push_str("/// docs in between\n"),
                1 => out.push_str("#[allow(dead_code)]\n"),
                _ => {}
            }
        }
        let body = if skipped { "a: core::marker::PhantomData<T>" } else { "a: T" };
        match d / 64 {
            0 | 1 => out.push_str(&format!("pub struct X<T> {{ {body} }}")),
            2 => out.push_str(&format!("pub struct X<T>({});", body.trim_start_matches("a: "))),
            _ => out.push_str(&format!("pub enum X<T> {{ A {{ {body} }}, B }}")),
        }
        out
    };
    (render(&lists), render(&twin_lists), if unknown { "unknown scale_info key in a generated attribute layout" } else { "repeated once-only scale_info key in a generated attribute layout" })
}

/// (negative item, positive twin, instantiation) for a `bounds(..)` attribute over several parameters
fn bounds_gen(salt: u16, v: u8, d: u8) -> (String, String, String) {
    const NAMES: [&str; 4] = ["T", "U", "V", "W"];
    let n = 2 + (salt % 3) as usize;
    let offender = (salt / 3 % n as u16) as usize;
    // role per parameter: 0 bounded, 1 skipped, 2 bounded and skipped, 3 neither (the defect)
    let mut roles = vec![0u8; n];
    let mut r = salt / 16;
    for (i, role) in roles.iter_mut().enumerate() {
        *role = if i == offender { 3 } else { (r % 4) as u8 };
        r /= 4;
    }
    let item = |fix: bool| -> String {
        let mut bounded: Vec<String> = vec![];
        let mut skipped: Vec<&str> = vec![];
        for (i, role) in roles.iter().enumerate() {
            let role = if *role == 3 && fix { 0 } else { *role };
            if role == 0 || role == 2 {
                bounded.push(format!("{}: TypeInfo + 'static", NAMES[i]));
            }
            if role == 1 || role == 2 {
                skipped.push(NAMES[i]);
            }
        }
        if v % 2 == 1 {
            bounded.reverse();
        }
        if v / 2 % 4 == 3 {
            // a predicate on a compound type mentions the offender but does not bound it
            bounded.push(format!("Vec<{}>: TypeInfo + 'static", NAMES[offender]));
        }
        let b = format!("bounds({})", bounded.join(", "));
        let sk = if skipped.is_empty() { None } else { Some(format!("skip_type_params({})", skipped.join(", "))) };
        let attrs = match (sk, d % 4) {
            (None, _) => format!("#[scale_info({b})]"),
            (Some(sk), 0) => format!("#[scale_info({b}, {sk})]"),
            (Some(sk), 1) => format!("#[scale_info({sk}, {b})]"),
            (Some(sk), 2) => format!("#[scale_info({b})]\n#[scale_info({sk})]"),
            (Some(sk), _) => format!("#[scale_info({sk})]\n#[scale_info({b})]"),
        };
        let generics: Vec<String> = roles.iter().enumerate().map(|(i, role)| if *role == 1 || *role == 2 { format!("{}: 'static", NAMES[i]) } else { format!("{}: TypeInfo + 'static", NAMES[i]) }).collect();
        // the offender's only use may be a member the derive does not describe - a `#[codec(skip)]`
        // member - or a self-referential member type: the parameter is still listed, so it still
        // needs its bound
        let all_params = NAMES[..n].join(", ");
        let members: Vec<String> = roles
            .iter()
            .enumerate()
            .map(|(i, role)| {
                if *role == 1 || *role == 2 {
                    format!("core::marker::PhantomData<{}>", NAMES[i])
                } else if i == offender && v / 8 % 4 == 2 {
                    format!("#[codec(skip)] {}", NAMES[i])
                } else if i == offender && v / 8 % 4 == 3 {
                    format!("Option<Box<X<{all_params}>>>")
                } else if d / 4 % 3 == 1 {
                    format!("Vec<{}>", NAMES[i])
                } else {
                    NAMES[i].to_string()
                }
            })
            .collect();
        // (a parameter used in a self-referential member only must appear elsewhere for rustc)
        let self_ref_only = v / 8 % 4 == 3;
        let mut members = members;
        if self_ref_only {
            members.push(format!("#[codec(skip)] core::marker::PhantomData<{}>", NAMES[offender]));
        }
        let named = |i: usize, m: &str| match m.strip_prefix("#[codec(skip)] ") {
            Some(rest) => format!("#[codec(skip)] f{i}: {rest}"),
            None => format!("f{i}: {m}"),
        };
        let body = match d / 16 % 3 {
            0 => format!("pub struct X<{}> {{ {} }}", generics.join(", "), members.iter().enumerate().map(|(i, m)| named(i, m)).collect::<Vec<_>>().join(", ")),
            1 => format!("pub struct X<{}>({});", generics.join(", "), members.join(", ")),
            _ => format!("pub enum X<{}> {{ {} }}", generics.join(", "), members.iter().enumerate().map(|(i, m)| format!("V{i}({m})")).collect::<Vec<_>>().join(", ")),
        };
        format!("#[derive(TypeInfo)]\n{attrs}\n{body}")
    };
    let args: Vec<&str> = roles.iter().map(|role| if *role == 1 { "NoInfo" } else { "u8" }).collect();
    (item(false), item(true), format!("X<{}>", args.join(", ")))
}

/// error classes that mean "the generated program has a typo", never the defect
const TYPO_CODES: [&str; 6] = ["E0412", "E0425", "E0432", "E0433", "E0061", "E0107"];
const BUILDER_CODES: [&str; 8] = ["E0599", "E0308", "E0271", "E0277", "E0631", "E0282", "E0283", "E0284"];

pub fn negative_body(c: &NCase, obs: &mut Obs) -> Result<(), String> {
    let a = farm::anchor(&FULL)?;
    let progs = c.programs();
    // the ill-formed program first: if it compiles, that is the violation whatever else is true
    let neg = farm::compile(&a, &progs.negative, false)?;
    if neg.success {
        return obs.fail_sig(progs.sig, format!("an ill-formed construction compiles ({}): {}", progs.what, progs.negative.lines().filter(|l| l.contains("let t") || l.contains("scale_info(") || l.contains("union") || l.contains("pub struct")).collect::<Vec<_>>().join(" ")));
    }
    // the positive twin shows that the rejection is due to the defect alone. A twin that does not
    // compile says nothing about C20 (a well-formed definition being rejected is C13 / C17
    // matter): the case is discarded and counted, and the search goes on
    let twin = farm::compile(&a, &progs.twin, false)?;
    if !twin.success {
        return Err(format!("generator-invalid: the positive twin does not compile ({}): {}", progs.what, twin.summary()));
    }
    let codes = neg.error_codes();
    if codes.iter().any(|c| TYPO_CODES.contains(&c.as_str())) || neg.errors().iter().any(|d| d.message.starts_with("expected") && d.code.is_none() && progs.builder) {
        return Err(format!("harness bug: the negative program fails for a typo-class reason ({}): {}", progs.what, neg.summary()));
    }
    if progs.builder {
        if !codes.iter().any(|c| BUILDER_CODES.contains(&c.as_str())) {
            return Err(format!("harness bug: the negative builder program fails, but not with a type error at the builder call ({}): {}", progs.what, neg.summary()));
        }
    } else {
        if neg.proc_macro_panicked() {
            return obs.fail_sig("derive-panic", format!("the derive panics instead of reporting an error ({}): {}", progs.what, neg.summary()));
        }
        // "rather than emitting an implementation": the use site must find no impl
        let no_impl = neg.errors().iter().any(|d| d.code.as_deref() == Some("E0277") && d.message.contains("TypeInfo"));
        if !no_impl {
            return obs.fail_sig("derive-emits-impl", format!("the derive reports an error but still emits an implementation ({}): {}", progs.what, neg.summary()));
        }
    }
    obs.nontrivial(&progs.negative);
    obs.class(&format!("defect/{}", progs.what));
    obs.class(if progs.builder { if c.portable { "form/portable" } else { "form/compile_time" } } else { "derive" });
    if obs.want_sample() {
        obs.sample(json!({"defect": progs.what, "negative_program_excerpt": progs.negative.lines().skip(3).collect::<Vec<_>>().join("\n"), "rustc_errors": neg.summary()}));
    }
    Ok(())
}

pub fn ncase() -> BoxedStrategy<NCase> {
    (0u8..N_KINDS, any::<u8>(), any::<bool>(), any::<u8>(), any::<u16>()).prop_map(|(kind, variation, portable, decor, salt)| NCase { kind, variation, portable, decor, salt }).boxed()
}
