//! C15 — produced metadata does not depend on the enabled crate features: one generated corpus
//! program is compiled against scale-info built under several feature sets and must print the
//! same registry bytes (the docs feature may change documentation strings only).

use crate::farm;
use crate::p_values::ProgCase;
use serde_json::json;
use std::time::Duration;
use vcore::model::*;
use vcore::refcodec::ref_dec;
use vcore::runner::*;

pub const TOGGLES: [&str; 6] = ["std", "serde", "decode", "bit-vec", "schema", "docs"];

/// the six covering sets of the quick tier
pub fn quick_sets() -> Vec<Vec<&'static str>> {
    vec![vec![], vec!["std"], vec!["serde", "decode"], vec!["bit-vec", "docs"], vec!["schema"], vec!["std", "serde", "decode", "bit-vec", "schema", "docs"]]
}

/// every distinct feature set (schema implies std)
pub fn all_sets() -> Vec<Vec<&'static str>> {
    let mut out: Vec<Vec<&'static str>> = vec![];
    for mask in 0u32..64 {
        let mut s: Vec<&'static str> = TOGGLES.iter().enumerate().filter(|(i, _)| mask >> i & 1 == 1).map(|(_, f)| *f).collect();
        if s.contains(&"schema") && !s.contains(&"std") {
            s.insert(0, "std");
        }
        s.sort();
        if !out.contains(&s) {
            out.push(s);
        }
    }
    out
}

fn blank_docs(m: &MReg) -> MReg {
    let mut m = m.clone();
    for t in &mut m.types {
        t.ty.docs.clear();
        match &mut t.ty.def {
            MDef::Composite(fs) => fs.iter_mut().for_each(|f| f.docs.clear()),
            MDef::Variant(vs) => vs.iter_mut().for_each(|v| {
                v.docs.clear();
                v.fields.iter_mut().for_each(|f| f.docs.clear())
            }),
            _ => {}
        }
    }
    m
}

fn all_docs(m: &MReg) -> Vec<&Vec<String>> {
    let mut out = vec![];
    for t in &m.types {
        out.push(&t.ty.docs);
        match &t.ty.def {
            MDef::Composite(fs) => fs.iter().for_each(|f| out.push(&f.docs)),
            MDef::Variant(vs) => vs.iter().for_each(|v| {
                out.push(&v.docs);
                v.fields.iter().for_each(|f| out.push(&f.docs))
            }),
            _ => {}
        }
    }
    out
}

pub fn features_body(case: &ProgCase, obs: &mut Obs, sets: &[Vec<&'static str>]) -> Result<(), String> {
    let uses_bitvec = case.prog.uses_bitvec();
    if case.prog.defs.iter().any(|d| {
        let keys: std::collections::BTreeSet<&String> = d.attr.replace.iter().map(|(k, _)| k).collect();
        keys.len() < d.attr.replace.len()
    }) {
        obs.class("replace_segment/two_rules_for_one_search_key");
    }
    let mut prints: Vec<(Vec<&'static str>, Vec<u8>)> = vec![];
    for set in sets {
        let bitvec = set.contains(&"bit-vec");
        if uses_bitvec && !bitvec {
            continue;
        }
        let a = farm::anchor(set)?;
        let out = farm::compile(&a, &case.prog.source(bitvec), true)?;
        if !out.success {
            return Err(format!("harness bug: corpus program does not compile under features {:?}: {}", set, out.summary()));
        }
        let run = farm::run(out.bin.as_ref().unwrap(), &[], Duration::from_secs(30))?;
        if run.status != Some(0) {
            return Err(format!("[sig:runtime-panic] corpus program fails at run time under features {:?}: {}", set, run.stderr.lines().find(|l| l.contains("panicked")).unwrap_or("")));
        }
        let hex = run.stdout.lines().find_map(|l| l.strip_prefix("REG ")).ok_or("harness: no REG line")?;
        prints.push((set.clone(), vsupport::unhex(hex)));
    }
    if prints.len() < 2 {
        return Ok(());
    }
    let mut pairs = 0u64;
    for i in 0..prints.len() {
        for j in i + 1..prints.len() {
            let (sa, ba) = &prints[i];
            let (sb, bb) = &prints[j];
            pairs += 1;
            let da = sa.contains(&"docs");
            let db = sb.contains(&"docs");
            if da == db {
                if ba != bb {
                    let at = ba.iter().zip(bb.iter()).position(|(x, y)| x != y).unwrap_or(ba.len().min(bb.len()));
                    return Err(format!("[sig:feature-dependent] the encoded registry differs between features {:?} and {:?} (first difference at byte {at}; {} vs {} bytes)", sa, sb, ba.len(), bb.len()));
                }
            } else {
                let (ma, _) = ref_dec(ba).map_err(|e| format!("[sig:feature-dependent] the registry encoded under features {:?} is not in the V14 layout any more (reference decoder: {e}), so the feature set changes more than documentation strings", sa))?;
                let (mb, _) = ref_dec(bb).map_err(|e| format!("[sig:feature-dependent] the registry encoded under features {:?} is not in the V14 layout any more (reference decoder: {e}), so the feature set changes more than documentation strings", sb))?;
                if blank_docs(&ma) != blank_docs(&mb) {
                    return Err(format!("[sig:feature-dependent] the docs feature changes more than documentation strings (features {:?} vs {:?})", sa, sb));
                }
                // docs-off is contained in docs-on: every doc list is either equal or empty
                let (on, off) = if da { (&ma, &mb) } else { (&mb, &ma) };
                for (x, y) in all_docs(on).iter().zip(all_docs(off).iter()) {
                    if !y.is_empty() && x != y {
                        return Err(format!("[sig:feature-dependent] a doc string present without the docs feature differs with it: {:?} vs {:?}", y, x));
                    }
                }
            }
        }
    }
    obs.extra_evals(pairs.saturating_sub(1));
    let ctxp = case.prog.root_ctx();
    for (i, (sa, _)) in prints.iter().enumerate() {
        for (sb, _) in prints.iter().skip(i + 1) {
            obs.nontrivial(&(&case.prog, sa, sb));
        }
    }
    obs.class_n("configuration_pairs", pairs);
    obs.class_n("configurations", prints.len() as u64);
    if uses_bitvec {
        obs.class("corpus/uses_bitvec");
    }
    if obs.want_sample() {
        obs.sample(json!({
            "roots": case.prog.roots.iter().map(|r| r.rust(&ctxp)).collect::<Vec<_>>(),
            "feature_sets": prints.iter().map(|(s, b)| json!({"features": s, "registry_bytes": b.len(), "fingerprint": format!("{:032x}", hash128(b))})).collect::<Vec<_>>(),
        }));
    }
    Ok(())
}
