//! proptest strategies for the program grammar.

use crate::ast::*;
use proptest::collection::vec;
use proptest::prelude::*;

fn bits() -> impl Strategy<Value = u8> {
    prop::sample::select(vec![8u8, 16, 32, 64, 128])
}

/// types usable where `Ord` is required (map keys, set / heap elements)
pub fn ord_te(depth: u32) -> BoxedStrategy<TE> {
    let leaf = prop_oneof![
        4 => bits().prop_map(TE::U),
        2 => bits().prop_map(TE::I),
        1 => Just(TE::Bool),
        2 => Just(TE::String),
        1 => Just(TE::Unit),
    ];
    if depth == 0 {
        return leaf.boxed();
    }
    let inner = ord_te(depth - 1);
    prop_oneof![
        6 => leaf,
        1 => vec(inner.clone(), 1..3).prop_map(TE::Tuple),
        1 => inner.clone().prop_map(|t| TE::Option(Box::new(t))),
        1 => inner.prop_map(|t| TE::Vec(Box::new(t))),
    ]
    .boxed()
}

fn int_te() -> impl Strategy<Value = TE> {
    prop_oneof![bits().prop_map(TE::U), bits().prop_map(TE::I)]
}

pub fn leaf_te(enc: bool, bitvec: bool) -> BoxedStrategy<TE> {
    let mut v: Vec<(u32, BoxedStrategy<TE>)> = vec![
        (6, bits().prop_map(TE::U).boxed()),
        (3, bits().prop_map(TE::I).boxed()),
        (2, Just(TE::Bool).boxed()),
        (2, Just(TE::String).boxed()),
        (1, Just(TE::Str).boxed()),
        (1, Just(TE::Unit).boxed()),
        (2, prop::sample::select(vec![0u8, 8, 16, 32, 64, 128]).prop_map(TE::Compact).boxed()),
        (1, bits().prop_map(TE::NonZeroU).boxed()),
        (1, bits().prop_map(TE::NonZeroI).boxed()),
        (1, Just(TE::Duration).boxed()),
        (1, Just(TE::CowStr).boxed()),
        (1, Just(TE::CW).boxed()),
    ];
    if bitvec {
        v.push((2, (prop::sample::select(vec![8u8, 16, 32, 64]), any::<bool>()).prop_map(|(s, m)| TE::BitVec(s, m)).boxed()));
    }
    if !enc {
        v.push((1, Just(TE::Char).boxed()));
    }
    proptest::strategy::Union::new_weighted(v).boxed()
}

/// closed type expressions over the built-in constructors
pub fn te(depth: u32, enc: bool, bitvec: bool, extra_leaves: Vec<TE>) -> BoxedStrategy<TE> {
    let mut leaves: Vec<(u32, BoxedStrategy<TE>)> = vec![(8, leaf_te(enc, bitvec))];
    if !extra_leaves.is_empty() {
        leaves.push((4, prop::sample::select(extra_leaves).boxed()));
    }
    let leaf = proptest::strategy::Union::new_weighted(leaves);
    leaf.prop_recursive(depth, 24, 4, move |inner| {
        let bx = |f: fn(Box<TE>) -> TE, s: BoxedStrategy<TE>| s.prop_map(move |t| f(Box::new(t))).boxed();
        let big_tuple = if enc { 5usize..=18 } else { 5usize..=20 };
        prop_oneof![
            3 => bx(TE::Vec, inner.clone()),
            1 => bx(TE::VecDeque, inner.clone()),
            2 => bx(TE::Box, inner.clone()),
            1 => bx(TE::Rc, inner.clone()),
            1 => bx(TE::Arc, inner.clone()),
            1 => bx(TE::Ref, inner.clone()),
            3 => bx(TE::Option, inner.clone()),
            2 => (inner.clone(), inner.clone()).prop_map(|(a, b)| TE::Result(Box::new(a), Box::new(b))),
            2 => (inner.clone(), 0u32..5).prop_map(|(a, n)| TE::Array(Box::new(a), n)),
            // lengths that do not fit 16 bits (byte-sized elements keep the values small)
            1 => (prop::sample::select(vec![TE::U(8), TE::Bool, TE::I(8), TE::Unit]), prop::sample::select(vec![65535u32, 65536, 65537, 70000, 131072])).prop_map(|(a, n)| TE::Array(Box::new(a), n)),
            3 => vec(inner.clone(), 1..5).prop_map(TE::Tuple),
            1 => (vec(leaf_te(enc, false), big_tuple)).prop_map(TE::Tuple),
            1 => bx(TE::CowSlice, inner.clone()),
            1 => bx(TE::Cow, inner.clone()),
            2 => (ord_te(1), inner.clone()).prop_map(|(k, v)| TE::Map(Box::new(k), Box::new(v))),
            1 => ord_te(1).prop_map(|k| TE::Set(Box::new(k))),
            1 => ord_te(1).prop_map(|k| TE::Heap(Box::new(k))),
            1 => int_te().prop_map(|k| TE::Range(Box::new(k))),
            1 => int_te().prop_map(|k| TE::RangeIncl(Box::new(k))),
            2 => bx(TE::Phantom, inner),
        ]
    })
    .boxed()
}

// ------------------------------------------------------------------------------------- docs

pub fn doc_line() -> impl Strategy<Value = DocLine> {
    let text = prop_oneof![
        4 => prop::sample::select(vec![
            " A plain doc line.", " second", "no leading space", "  two leading spaces", "", " ", " with \"quotes\" and \\ backslash", " {braces} and `code`",
            " ünïcödé \u{10348}", " trailing tab\there", " # heading", " - item", "    indented code", " `///` inside", " let x = r#\"raw\"#;",
        ]).prop_map(|s| s.to_string()),
        1 => "[ ]{0,4}[a-zA-Z0-9 ,.;:!?'(){}<>=+*_-]{0,30}",
    ];
    prop_oneof![
        6 => text.clone().prop_map(|t| {
            // `///` content: no line breaks, and a leading '/' would turn it into a plain comment
            let t: String = t.chars().filter(|c| *c != '\n' && *c != '\r').collect();
            let t = t.trim_end().to_string();
            if t.starts_with('/') || t.starts_with('!') { format!(" {t}") } else { t }
        }).prop_map(DocLine::Slash),
        3 => text.prop_map(DocLine::Attr),
        1 => prop::sample::select(vec!["line one\nline two", " tab\tand\rCR", "\u{0}nul"]).prop_map(|s| DocLine::Attr(s.to_string())),
        1 => (0u8..3).prop_map(DocLine::Distractor),
    ]
}

pub fn docs() -> impl Strategy<Value = Vec<DocLine>> {
    prop_oneof![
        3 => Just(vec![]),
        3 => vec(doc_line(), 1..3),
        1 => vec(doc_line(), 3..6),
    ]
}

// ------------------------------------------------------------------------------ definitions

const FIELD_NAMES: [&str; 10] = ["a", "b", "value", "r#type", "_x", "next", "data", "k9", "r#fn", "Weird_Name"];
const VARIANT_NAMES: [&str; 10] = ["A", "B", "Cc", "Dee", "r#Type", "E_1", "None", "Some", "Ok", "Z9"];
const TYPE_NAMES: [&str; 8] = ["Foo", "Bar", "Baz_q", "r#Raw", "X", "Option", "Vec", "PhantomData"];
const MODULE_NAMES: [&str; 5] = ["m", "inner", "deep_mod", "v2", "types"];
const REPLACEMENTS: [&str; 5] = ["renamed", "Other", "r#crate_like", "_u", "Z"];
/// new member names for `#[scale_info(rename = "..")]`: the attribute takes a string literal, so
/// the name need not be an identifier (keywords, dashes, dots, blanks, digits first, empty, raw
/// prefix, non-ASCII, quotes) - it is reported verbatim
const RENAMES: [&str; 16] = [
    "renamed", "Other", "_u", "Z", "type", "crate", "block-number", "2nd", "extra.data", "max weight", "", " padded ", "r#type", "\u{e9}t\u{e9}",
    "say \"hi\"", "a::b",
];
pub const DISCRIMINANTS: [(&str, u8); 12] = [
    ("5", 5), ("0", 0), ("255", 255), ("0x10", 16), ("2 + 3", 5), ("1 << 3", 8), ("300 - 50", 250), ("(7)", 7), ("10 / 2", 5), ("3 * 4", 12), ("0b1010", 10), ("100 + 100 - 1", 199),
];

#[derive(Clone, Debug)]
pub struct DefOpts {
    /// derive Encode and keep every member encodable (C03)
    pub encode: bool,
    pub bitvec: bool,
    /// allow docs / capture_docs / replace_segment / rename / crate / whitespace (C09)
    pub rich_attrs: bool,
    /// allow encoded_as members
    pub encoded_as: bool,
}

/// member type inside definition #idx with `n_params` parameters, earlier definitions available
fn member_te(idx: usize, n_params: u8, lifetime: bool, prev: &[Def], o: &DefOpts, allow_self: bool) -> BoxedStrategy<TE> {
    let mut extra: Vec<TE> = (0..n_params).map(TE::Param).collect();
    for (j, d) in prev.iter().enumerate() {
        if j >= idx {
            break;
        }
        if o.encode && !d.encode {
            continue;
        }
        // instantiate earlier definitions with simple closed arguments (or our own parameters)
        let args: Vec<TE> = (0..d.n_params).map(|k| if n_params > 0 && k % 2 == 0 { TE::Param(k % n_params) } else { TE::U(8 << (k % 3)) }).collect();
        extra.push(TE::Def(j, args));
    }
    if lifetime {
        extra.push(TE::StrA);
        extra.push(TE::SliceA(Box::new(TE::U(8))));
    }
    let base = te(2, o.encode, o.bitvec, extra);
    if allow_self {
        prop_oneof![
            12 => base,
            1 => Just(TE::Option(Box::new(TE::Box(Box::new(TE::SelfTy))))),
            1 => Just(TE::Vec(Box::new(TE::SelfTy))),
        ]
        .boxed()
    } else {
        base
    }
}

fn field(ty: BoxedStrategy<TE>, o: &DefOpts) -> BoxedStrategy<FieldD> {
    let rich = o.rich_attrs;
    let enc = o.encode;
    let encoded_as = o.encoded_as;
    (ty, any::<u16>(), if rich { docs().boxed() } else { Just(vec![]).boxed() }, any::<bool>(), prop::sample::select(RENAMES.to_vec()))
        .prop_map(move |(ty, k, docs, spaced, rn)| {
            let mut attr = FieldAttr::default();
            let mut ty = ty;
            match k % 16 {
                0 | 1 => attr.skip = true,
                2 | 3 if enc => {
                    // compact members: unsigned integers or the CompactAs newtype
                    attr.compact = true;
                    ty = match k / 16 % 6 {
                        0 => TE::U(8),
                        1 => TE::U(16),
                        2 => TE::U(32),
                        3 => TE::U(64),
                        4 => TE::U(128),
                        _ => TE::CW,
                    };
                }
                4 if enc && encoded_as => {
                    attr.encoded_as = true;
                    ty = TE::U([8u8, 16, 32, 64, 128][(k / 16 % 5) as usize]);
                }
                _ => {}
            }
            if rich && k % 7 == 0 {
                attr.rename = Some(rn.to_string());
            }
            FieldD { name: None, ty, attr, docs, spaced: rich && spaced, qualified: rich && k % 5 == 1 }
        })
        .boxed()
}

fn name_fields(shape: Shape, mut fs: Vec<FieldD>, salt: u16) -> Vec<FieldD> {
    match shape {
        Shape::Unit => vec![],
        Shape::Unnamed => {
            for f in &mut fs {
                f.attr.rename = None;
            }
            fs
        }
        Shape::Named => {
            let mut seen = std::collections::HashSet::new();
            for (k, f) in fs.iter_mut().enumerate() {
                let base = FIELD_NAMES[(salt as usize + k * 3) % FIELD_NAMES.len()];
                let mut n = base.to_string();
                if !seen.insert(n.clone()) {
                    n = format!("{}_{k}", base.trim_start_matches("r#"));
                    seen.insert(n.clone());
                }
                f.name = Some(n);
            }
            fs
        }
    }
}

fn shape() -> impl Strategy<Value = Shape> {
    prop_oneof![4 => Just(Shape::Named), 3 => Just(Shape::Unnamed), 1 => Just(Shape::Unit)]
}

/// Rust's own discriminants (explicit, else previous + 1) must be unique as well
fn fix_rust_discriminants(vs: &mut Vec<VariantD>) {
    for _ in 0..vs.len() + 1 {
        let mut cur: i64 = -1;
        let mut seen: std::collections::HashMap<i64, usize> = Default::default();
        let mut clash: Option<usize> = None;
        for (k, v) in vs.iter().enumerate() {
            cur = v.discriminant.as_ref().map(|d| d.1 as i64).unwrap_or(cur + 1);
            // a value past 255 would overflow a #[repr(u8)] enum (and is no SCALE index anyway)
            if seen.insert(cur, k).is_some() || cur > 255 {
                clash = Some(k);
                break;
            }
        }
        match clash {
            None => return,
            Some(k) => {
                // remove the nearest explicit discriminant at or before the clash
                if let Some(j) = (0..=k).rev().find(|j| vs[*j].discriminant.is_some()) {
                    vs[j].discriminant = None;
                } else {
                    return;
                }
            }
        }
    }
    for v in vs.iter_mut() {
        v.discriminant = None;
    }
}

fn fix_indices(vs: &mut Vec<VariantD>) {
    fix_rust_discriminants(vs);
    // drop explicit indices / discriminants until the effective indices are unique
    for _ in 0..vs.len() + 1 {
        let eff = effective_indices(vs);
        let mut seen = std::collections::HashMap::new();
        let mut clash = None;
        for (k, e) in eff.iter().enumerate() {
            if let Some(e) = e {
                if let Some(prev) = seen.insert(*e, k) {
                    clash = Some((prev, k));
                    break;
                }
            }
        }
        match clash {
            None => return,
            Some((a, b)) => {
                // prefer to drop an explicit marker; implicit positions cannot move
                let victim = if vs[b].index.is_some() || vs[b].discriminant.is_some() { b } else { a };
                if vs[victim].index.is_some() {
                    vs[victim].index = None;
                } else if vs[victim].discriminant.is_some() {
                    vs[victim].discriminant = None;
                } else {
                    // two implicit positions never clash; an explicit one clashes with an implicit one
                    let other = if victim == a { b } else { a };
                    vs[other].index = None;
                    vs[other].discriminant = None;
                }
            }
        }
    }
    // last resort: everything implicit
    for v in vs.iter_mut() {
        v.index = None;
        v.discriminant = None;
    }
}

pub fn def(idx: usize, prev: Vec<Def>, o: DefOpts) -> BoxedStrategy<Def> {
    let o2 = o.clone();
    (prop_oneof![6 => 0u8..3, 1 => 3u8..5], prop::bool::weighted(0.12), any::<u16>(), any::<bool>())
        .prop_flat_map(move |(n_params, lifetime, salt, is_enum)| {
            let o = o2.clone();
            let prev = prev.clone();
            let mt = |allow_self: bool| member_te(idx, n_params, lifetime, &prev, &o, allow_self);
            let fields = |allow_self: bool| vec(field(mt(allow_self), &o), 0..5);
            let body: BoxedStrategy<Body> = if is_enum {
                let variant = (shape(), fields(true), prop::option::weighted(0.25, any::<u8>()), prop::bool::weighted(0.12), if o.rich_attrs { docs().boxed() } else { Just(vec![]).boxed() }, any::<u16>())
                    .prop_map(|(shape, fs, index, skip, docs, vsalt)| VariantD { name: String::new(), shape, fields: name_fields(shape, fs, vsalt), index, skip, discriminant: None, docs, index_style: (vsalt >> 8) as u8 });
                (vec(variant, 1..6), any::<u16>(), prop::bool::weighted(0.25), vec(prop::sample::select(DISCRIMINANTS.to_vec()), 6), prop::bool::weighted(0.3))
                    .prop_map(move |(mut vs, vsalt, fieldless, discs, with_repr)| {
                        for (k, v) in vs.iter_mut().enumerate() {
                            let base = VARIANT_NAMES[(vsalt as usize + k) % VARIANT_NAMES.len()];
                            v.name = base.to_string();
                        }
                        let mut seen = std::collections::HashSet::new();
                        for (k, v) in vs.iter_mut().enumerate() {
                            if !seen.insert(v.name.clone()) {
                                v.name = format!("{}_{k}", v.name.trim_start_matches("r#"));
                            }
                        }
                        if fieldless {
                            for (k, v) in vs.iter_mut().enumerate() {
                                v.shape = Shape::Unit;
                                v.fields.clear();
                                if k % 2 == (vsalt % 2) as usize {
                                    let (s, n) = discs[k % discs.len()];
                                    v.discriminant = Some((s.to_string(), n));
                                }
                            }
                        }
                        if with_repr && !fieldless {
                            // #[repr(int)] enum: explicit discriminants are allowed on variants with fields
                            for (k, v) in vs.iter_mut().enumerate() {
                                if (k + vsalt as usize) % 3 != 0 {
                                    let (s, n) = discs[k % discs.len()];
                                    // the expression is evaluated in the repr type: keep intermediates in u8 range
                                    let s = if s.contains("300") { "250" } else { s };
                                    v.discriminant = Some((s.to_string(), n));
                                }
                            }
                            vs.push(VariantD { name: "__repr_marker".into(), shape: Shape::Unit, fields: vec![], index: None, skip: true, discriminant: None, docs: vec![], index_style: 0 });
                        }
                        // at least one variant must be constructible
                        if vs.iter().all(|v| v.skip) {
                            vs[0].skip = false;
                        }
                        fix_indices(&mut vs);
                        // dropping a marker can shift Rust's implicit discriminants: settle both
                        fix_indices(&mut vs);
                        Body::Enum(vs)
                    })
                    .boxed()
            } else {
                (shape(), fields(true), any::<u16>()).prop_map(|(shape, fs, s)| Body::Struct(shape, name_fields(shape, fs, s))).boxed()
            };
            let rich = o.rich_attrs;
            let attr = (
                vec(0u8..3, 0..2),
                prop::option::weighted(0.5, prop::sample::select(vec!["default", "always", "never"])),
                vec((0usize..6, prop::sample::select(REPLACEMENTS.to_vec())), 0..3),
                0u8..6,
                any::<bool>(),
            )
                .prop_map(move |(skip, cd, repl, crate_attr, split)| (skip, cd, repl, crate_attr, split));
            let encode = o.encode;
            (body, attr, if rich { docs().boxed() } else { Just(vec![]).boxed() }, prop::bool::weighted(if rich { 0.35 } else { 0.15 }), vec(prop::sample::select(MODULE_NAMES.to_vec()), 1..3))
                .prop_map(move |(body, (skip, cd, repl, crate_attr, split), docs, via_macro, modules)| {
                    let name = format!("{}{}", TYPE_NAMES[(salt as usize) % TYPE_NAMES.len()], idx);
                    let mut modules: Vec<String> = modules.into_iter().map(|s| s.to_string()).collect();
                    // one module tree per definition keeps module names from clashing
                    modules[0] = format!("{}{}", modules[0], idx);
                    let mut body = body;
                    let mut repr = None;
                    if let Body::Enum(vs) = &mut body {
                        // the marker variant only carries the decision to the item level
                        if let Some(pos) = vs.iter().position(|v| v.name == "__repr_marker") {
                            vs.remove(pos);
                            repr = Some(["u8", "u16", "u32", "i32", "u64", "isize"][salt as usize % 6].to_string());
                        }
                    }
                    if repr.is_some() {
                        if let Body::Enum(vs) = &mut body {
                            for v in vs.iter_mut() {
                                if let Some((s, _)) = &mut v.discriminant {
                                    if s.contains("300") {
                                        *s = "250".into();
                                    }
                                }
                            }
                        }
                    }
                    let mut d = Def { name, modules, n_params, lifetime, const_params: vec![], body, attr: ItemAttr::default(), docs, encode, via_macro: false, repr };
                    d.map_member_types(&sanitize);
                    // a lifetime or parameter that no member uses would not compile
                    let fields: Vec<TE> = d.all_fields().iter().map(|f| f.ty.clone()).collect();
                    if d.lifetime && !fields.iter().any(|t| t.uses_lifetime()) {
                        d.lifetime = false;
                    }
                    let mut used = 0u8;
                    while used < d.n_params && fields.iter().any(|t| t.uses_param(used)) {
                        used += 1;
                    }
                    // parameters must be used contiguously from T: rename by truncation
                    if used < d.n_params {
                        let n = used;
                        d.n_params = n;
                        d.map_member_types(&|t| demote_params(t, n));
                    }
                    if rich {
                        d.attr.skip_params = skip.into_iter().filter(|p| *p < d.n_params).collect::<std::collections::BTreeSet<_>>().into_iter().collect();
                        d.attr.capture_docs = cd.map(|s| s.to_string());
                        let mut segs: Vec<String> = vec!["prog".into()];
                        segs.extend(d.modules.iter().cloned());
                        segs.push(d.name.clone());
                        segs.push("not_a_segment".into());
                        let mut rules: Vec<(String, String)> = vec![];
                        for (k, r) in repl {
                            let key = segs[k % segs.len()].clone();
                            if rules.iter().any(|(a, _)| *a == key) {
                                continue;
                            }
                            rules.push((key, r.to_string()));
                            // sometimes a second rule whose search key is the first rule's replacement:
                            // the documented single pass over the original segments must not chain
                            if k % 3 == 0 && !rules.iter().any(|(a, _)| a == r) {
                                rules.push((r.to_string(), "chained".to_string()));
                            }
                        }
                        d.attr.replace = rules;
                        d.attr.crate_attr = if crate_attr < 3 { 0 } else { crate_attr - 3 };
                        d.attr.split_attrs = split;
                        // a definition with a lifetime: often route a lifetime-carrying member type through
                        // a macro_rules! `$ty:ty` fragment (the derive sees it as a None-delimited group)
                        let mut via_macro = via_macro;
                        if d.lifetime && salt % 2 == 0 {
                            if let Body::Struct(Shape::Named, fs) = &mut d.body {
                                // (not when the first member is what keeps a type parameter in use)
                                if !fs.is_empty() && !fs[0].ty.any(&|t| matches!(t, TE::Param(_))) {
                                    fs[0].ty = match salt / 2 % 4 {
                                        0 => TE::StrA,
                                        1 => TE::SliceA(Box::new(TE::U(8))),
                                        2 => TE::Option(Box::new(TE::StrA)),
                                        _ => TE::Tuple(vec![TE::StrA, TE::U(16)]),
                                    };
                                    fs[0].attr = FieldAttr::default();
                                    fs[0].docs.clear();
                                    via_macro = true;
                                }
                            }
                        }
                        // (the member may carry any attribute - compact, skip, encoded_as, rename - and docs:
                        // the derive has to look through the group for each of them)
                        d.via_macro = via_macro && matches!(&d.body, Body::Struct(Shape::Named, fs) if !fs.is_empty() && !fs[0].ty.any(&|t| matches!(t, TE::SelfTy)));
                    } else {
                        // the value lanes (C03) route members through macro fragments too: a compact,
                        // encoded_as or skipped member whose type arrives as a None-delimited group
                        d.via_macro = via_macro && matches!(&d.body, Body::Struct(Shape::Named, fs) if !fs.is_empty() && !fs[0].ty.any(&|t| matches!(t, TE::SelfTy)));
                    }
                    d
                })
        })
        .boxed()
}

/// `Cow<'static, X>` needs `X: ToOwned` and `&'static X` needs `X: 'static` already on the type
/// declaration; with a type parameter or Self inside, use Box / Vec instead
pub fn sanitize(t: &TE) -> TE {
    let generic = |x: &TE| x.any(&|y| matches!(y, TE::Param(_) | TE::SelfTy | TE::StrA | TE::SliceA(_)));
    match t {
        TE::Cow(a) if generic(a) => TE::Box(Box::new(sanitize(a))),
        TE::CowSlice(a) if generic(a) => TE::Vec(Box::new(sanitize(a))),
        TE::Ref(a) if generic(a) => TE::Box(Box::new(sanitize(a))),
        other => other.map_children(&|c| sanitize(c)),
    }
}

fn demote_params(t: &TE, n: u8) -> TE {
    match t {
        TE::Param(i) if *i >= n => TE::U(16),
        other => other.map_children(&|c| demote_params(c, n)),
    }
}

impl Def {
    pub fn map_member_types(&mut self, f: &dyn Fn(&TE) -> TE) {
        match &mut self.body {
            Body::Struct(_, fs) => fs.iter_mut().for_each(|x| x.ty = f(&x.ty)),
            Body::Enum(vs) => vs.iter_mut().for_each(|v| v.fields.iter_mut().for_each(|x| x.ty = f(&x.ty))),
        }
    }
}

/// closed argument for a type parameter (must be Gen + Clone + Encode when values are produced)
fn arg_te(enc: bool, bitvec: bool) -> BoxedStrategy<TE> {
    prop_oneof![
        6 => te(1, enc, bitvec, vec![]),
        1 => Just(TE::Phantom(Box::new(TE::U(8)))),
    ]
    .boxed()
}

pub fn program(n_defs: std::ops::Range<usize>, o: DefOpts) -> BoxedStrategy<Program> {
    let o1 = o.clone();
    n_defs
        .prop_flat_map(move |n| {
            // definitions are generated one after the other so that each may use the earlier ones
            let mut acc: BoxedStrategy<Vec<Def>> = Just(vec![]).boxed();
            for i in 0..n {
                let o = o1.clone();
                acc = acc
                    .prop_flat_map(move |prev| {
                        let p2 = prev.clone();
                        def(i, prev, o.clone()).prop_map(move |d| {
                            let mut v = p2.clone();
                            v.push(d);
                            v
                        })
                    })
                    .boxed();
            }
            acc
        })
        .prop_flat_map(move |defs| {
            let o = o.clone();
            let n_args: usize = defs.iter().map(|d| d.n_params as usize).sum();
            (Just(defs), vec(arg_te(o.encode, o.bitvec), n_args..=n_args))
        })
        .prop_map(|(defs, mut args)| {
            let roots = defs
                .iter()
                .enumerate()
                .map(|(i, d)| {
                    let a: Vec<TE> = (0..d.n_params).map(|_| args.pop().unwrap_or(TE::U(8))).collect();
                    TE::Def(i, a)
                })
                .collect();
            Program { defs, roots }
        })
        .boxed()
}

/// programs without definitions: built-in type expressions only (C04)
pub fn builtin_program(enc: bool) -> BoxedStrategy<Program> {
    (vec(te(3, enc, true, vec![]), 1..6), any::<u16>(), 0u8..3)
        .prop_map(|(mut roots, k, twin)| {
            // in a third of the programs one root is followed by its "alias twin": the same
            // expression with a transparent Box around one inner type - a different Rust type whose
            // definition is identical once the pointer has been resolved - and by a further type,
            // so that the two meet in one registry and something is numbered after them
            if twin == 0 {
                let i = vcore::runner::pick(k, roots.len());
                if let Some(t) = alias_twin(&roots[i]) {
                    roots.insert(i + 1, t);
                    if i + 2 == roots.len() {
                        roots.push(TE::Tuple(vec![TE::U(16), TE::Option(Box::new(TE::U(64)))]));
                    }
                }
            }
            Program { defs: vec![], roots }
        })
        .boxed()
}

/// the same type expression with a `Box` around the element / first member / payload
pub fn alias_twin(t: &TE) -> Option<TE> {
    let bx = |a: &TE| Box::new(TE::Box(Box::new(a.clone())));
    Some(match t {
        TE::Vec(a) => TE::Vec(bx(a)),
        TE::VecDeque(a) => TE::VecDeque(bx(a)),
        TE::Array(a, n) => TE::Array(bx(a), *n),
        TE::Option(a) => TE::Option(bx(a)),
        TE::Tuple(v) if !v.is_empty() => {
            let mut v = v.clone();
            v[0] = TE::Box(Box::new(v[0].clone()));
            TE::Tuple(v)
        }
        _ => return None,
    })
}

pub fn entropies(n: usize) -> BoxedStrategy<Vec<Vec<u8>>> {
    vec(vec(any::<u8>(), 0..96), n..=n).boxed()
}

/// deep, branching type graphs: a chain of `levels` derived definitions, each holding a leaf type of
/// its own before and after the link to the next one (wrapped in 1-3 built-in layers), plus one
/// deeply nested built-in expression. Registration order, recursion depth and numbering all matter
/// here, and nothing else in the grammar goes deeper than a handful of levels.
pub fn deep_program() -> BoxedStrategy<Program> {
    (6usize..40, vec(any::<u8>(), 40..=40), any::<bool>(), 4usize..36)
        .prop_map(|(levels, salts, enums, nest)| {
            let bx = |t: TE| Box::new(t);
            let leaf = |i: usize, k: u8| -> TE {
                match k % 5 {
                    0 => TE::Array(bx(TE::U(8)), i as u32 + 1),
                    1 => TE::Tuple(vec![TE::U(16), TE::Array(bx(TE::Bool), i as u32 + 1)]),
                    2 => TE::Option(bx(TE::Array(bx(TE::I(32)), i as u32 + 1))),
                    3 => TE::Result(bx(TE::Array(bx(TE::U(64)), i as u32 + 1)), bx(TE::String)),
                    _ => TE::Map(bx(TE::U(32)), bx(TE::Array(bx(TE::U(128)), i as u32 + 1))),
                }
            };
            let wrap = |t: TE, k: u8| -> TE {
                match k % 6 {
                    0 => TE::Option(bx(t)),
                    1 => TE::Vec(bx(TE::Option(bx(t)))),
                    2 => TE::Tuple(vec![TE::U(8), TE::Vec(bx(t))]),
                    3 => TE::Map(bx(TE::U(16)), bx(TE::Tuple(vec![t, TE::Bool]))),
                    4 => TE::Box(bx(TE::Result(bx(t), bx(TE::Unit)))),
                    _ => TE::Array(bx(TE::Option(bx(t))), 2),
                }
            };
            let fld = |name: &str, ty: TE| FieldD { name: Some(name.to_string()), ty, attr: FieldAttr::default(), docs: vec![], spaced: false, qualified: false };
            let mut defs: Vec<Def> = vec![];
            for i in 0..levels {
                let k = salts[i % salts.len()];
                let mut fields = vec![fld("before", leaf(i, k))];
                if i > 0 {
                    fields.push(fld("next", wrap(TE::Def(i - 1, vec![]), k / 5)));
                }
                fields.push(fld("after", leaf(i + 100, k / 7)));
                let body = if enums && i % 3 == 1 {
                    Body::Enum(vec![
                        VariantD { name: "A".into(), shape: Shape::Named, fields: fields.clone(), index: None, skip: false, docs: vec![], discriminant: None, index_style: 0 },
                        VariantD { name: "B".into(), shape: Shape::Unit, fields: vec![], index: None, skip: false, docs: vec![], discriminant: None, index_style: 0 },
                    ])
                } else {
                    Body::Struct(Shape::Named, fields)
                };
                defs.push(Def { name: format!("Deep{i}"), modules: vec![format!("deep{i}")], n_params: 0, lifetime: false, const_params: vec![], body, attr: ItemAttr::default(), docs: vec![], encode: false, via_macro: false, repr: None });
            }
            // one built-in expression nested `nest` levels deep, branching at every level
            let mut t = TE::U(8);
            for j in 0..nest {
                t = TE::Tuple(vec![leaf(j + 200, salts[(j + 7) % salts.len()]), wrap(t, salts[(j + 3) % salts.len()] / 3)]);
            }
            Program { roots: vec![TE::Def(levels - 1, vec![]), t], defs }
        })
        .boxed()
}

/// fixed family programs: every member of each macro-generated family of built-in impls in one
/// registry (C04); `k` selects the family
pub const N_FAMILIES: u8 = 7;
pub fn family_program(k: u8) -> Program {
    let bx = |t: TE| Box::new(t);
    let ints = || -> Vec<TE> { [8u8, 16, 32, 64, 128].iter().flat_map(|b| vec![TE::U(*b), TE::I(*b)]).collect() };
    let roots: Vec<TE> = match k % N_FAMILIES {
        0 => {
            let mut v: Vec<TE> = vec![];
            for s in [8u8, 16, 32, 64] {
                for m in [false, true] {
                    v.push(TE::BitVec(s, m));
                }
            }
            v.push(TE::Option(bx(TE::BitVec(8, true))));
            v.push(TE::Vec(bx(TE::BitVec(16, false))));
            v.push(TE::Tuple(vec![TE::BitVec(32, true), TE::BitVec(32, false)]));
            v
        }
        1 => {
            let pool = [TE::U(8), TE::Bool, TE::String, TE::I(64), TE::U(128), TE::Unit, TE::Option(bx(TE::U(16))), TE::Compact(32)];
            (0..=18usize).map(|n| TE::Tuple((0..n).map(|i| pool[(i + n) % pool.len()].clone()).collect())).collect()
        }
        2 => {
            let mut v: Vec<TE> = vec![];
            for b in [8u8, 16, 32, 64, 128] {
                v.push(TE::NonZeroU(b));
                v.push(TE::NonZeroI(b));
                v.push(TE::Compact(b));
                v.push(TE::Range(bx(TE::U(b))));
                v.push(TE::RangeIncl(bx(TE::I(b))));
            }
            v.push(TE::Compact(0));
            v.push(TE::Duration);
            v.push(TE::CW);
            v
        }
        3 => vec![
            TE::Vec(bx(TE::U(16))),
            TE::VecDeque(bx(TE::String)),
            TE::Map(bx(TE::U(32)), bx(TE::String)),
            TE::Map(bx(TE::String), bx(TE::Vec(bx(TE::U(8))))),
            TE::Set(bx(TE::I(16))),
            TE::Heap(bx(TE::U(64))),
            TE::CowStr,
            TE::CowSlice(bx(TE::U(32))),
            TE::Cow(bx(TE::U(64))),
            TE::Box(bx(TE::String)),
            TE::Rc(bx(TE::Vec(bx(TE::Bool)))),
            TE::Arc(bx(TE::Option(bx(TE::I(8))))),
            TE::Ref(bx(TE::U(128))),
            TE::Str,
            TE::Result(bx(TE::Vec(bx(TE::U(8)))), bx(TE::String)),
        ],
        4 => {
            let mut v = ints();
            v.extend(vec![TE::Bool, TE::String, TE::Unit]);
            for n in 0..5u32 {
                v.push(TE::Array(bx(TE::U(16)), n));
            }
            v.push(TE::Array(bx(TE::U(8)), 65536));
            v.push(TE::Array(bx(TE::Unit), 70000));
            v.push(TE::Array(bx(TE::Array(bx(TE::Bool), 2)), 3));
            v.push(TE::Option(bx(TE::Option(bx(TE::Unit)))));
            v.push(TE::Result(bx(TE::Unit), bx(TE::Unit)));
            v
        }
        5 => {
            let ph = || TE::Phantom(bx(TE::U(8)));
            vec![
                ph(),
                TE::Tuple(vec![TE::U(8), ph()]),
                TE::Tuple(vec![ph()]),
                TE::Tuple(vec![ph(), TE::Phantom(bx(TE::String)), TE::Bool]),
                TE::Option(bx(ph())),
                TE::Vec(bx(ph())),
                TE::Array(bx(ph()), 3),
                TE::Map(bx(TE::U(8)), bx(ph())),
                TE::Result(bx(ph()), bx(TE::U(8))),
                TE::Box(bx(ph())),
                TE::Cow(bx(ph())),
            ]
        }
        _ => vec![
            TE::Char,
            TE::Vec(bx(TE::Char)),
            TE::Tuple((0..19).map(|i| if i % 2 == 0 { TE::U(8) } else { TE::Bool }).collect()),
            TE::Tuple((0..20).map(|i| if i % 3 == 0 { TE::Char } else { TE::U(16) }).collect()),
            TE::Tuple((0..20).map(|i| if i == 7 { TE::Phantom(bx(TE::U(8))) } else { TE::U(32) }).collect()),
        ],
    };
    Program { defs: vec![], roots }
}
