//! vprog — checks decided on generated programs (layer P): every case is Rust source compiled by
//! a direct rustc call against scale-info built from the current tree, then run and judged.
mod ast;
mod dec;
mod farm;
mod gen;
mod p_builders;
mod p_generics;
mod p_negative;
mod p_values;
mod props;

fn main() {
    if std::env::args().nth(1).as_deref() == Some("warm") {
        for f in [&p_values::FULL[..], &p_values::FULL_NODOCS[..]] {
            if let Err(e) = farm::anchor(f) {
                eprintln!("{e}");
                std::process::exit(2);
            }
        }
        std::process::exit(0);
    }
    let code = std::panic::catch_unwind(|| vcore::cli::main_with(props::all()));
    farm::cleanup_workdirs();
    if code.is_err() {
        std::process::exit(2);
    }
}
