//! vprog — checks decided on generated programs (layer P): every case is Rust source compiled by
//! a direct rustc call against scale-info built from the current tree, then run and judged.
mod ast;
mod dec;
mod farm;
mod gen;
mod p_builders;
mod p_features;
mod p_generics;
mod p_negative;
mod p_values;
mod props;

fn main() {
    if std::env::args().nth(1).as_deref() == Some("warm") {
        let mut sets: Vec<Vec<&'static str>> = vec![p_values::FULL.to_vec(), p_values::FULL_NODOCS.to_vec()];
        sets.extend(p_features::quick_sets());
        sets.push(vec!["bit-vec"]);
        sets.push(vec!["bit-vec", "std", "serde"]);
        for f in &sets {
            if let Err(e) = farm::anchor(f) {
                eprintln!("{e}");
                std::process::exit(2);
            }
        }
        std::process::exit(0);
    }
    farm::cleanup_workdirs();
    vcore::cli::set_exit_hook(farm::cleanup_workdirs);
    let code = std::panic::catch_unwind(|| vcore::cli::main_with(props::all()));
    farm::cleanup_workdirs();
    if code.is_err() {
        std::process::exit(2);
    }
}
