//! Compile farm: anchor builds (scale-info from the current tree under a chosen feature set) and
//! direct `rustc` invocations for generated programs.

use serde_json::Value;
use std::collections::HashMap;
use std::path::{Path, PathBuf};
use std::process::{Command, Stdio};
use std::sync::{Arc, Mutex};
use std::time::{Duration, Instant};

#[derive(Debug, Clone)]
pub struct Anchor {
    pub features: Vec<String>,
    pub externs: Vec<(String, PathBuf)>,
    pub deps_dir: PathBuf,
    pub manifest_dir: PathBuf,
}

pub fn harness_dir() -> PathBuf {
    vcore::runner::verif_root().join("harness")
}

pub fn target_dir() -> PathBuf {
    if std::env::var_os("VERIF_REPO").is_some() {
        // VERIF_ALT names the scratch target directory (several sensitivity runs side by side)
        harness_dir().join(std::env::var("VERIF_ALT").unwrap_or_else(|_| "target-alt".into()))
    } else {
        harness_dir().join("target")
    }
}

static ANCHORS: Mutex<Option<HashMap<String, Arc<Anchor>>>> = Mutex::new(None);

pub const ALL_FEATURES: [&str; 7] = ["std", "derive", "serde", "decode", "docs", "bit-vec", "schema"];

/// build (or fetch) the anchor for a feature set; `derive` is always added
pub fn anchor(features: &[&str]) -> Result<Arc<Anchor>, String> {
    let mut fs: Vec<String> = features.iter().map(|s| s.to_string()).collect();
    if !fs.iter().any(|f| f == "derive") {
        fs.push("derive".into());
    }
    fs.sort();
    fs.dedup();
    let key = fs.join(",");
    {
        let g = ANCHORS.lock().unwrap();
        if let Some(a) = g.as_ref().and_then(|m| m.get(&key)) {
            return Ok(a.clone());
        }
    }
    // one anchor build at a time per process (cargo would serialise them on the target dir anyway)
    static BUILD: Mutex<()> = Mutex::new(());
    let _guard = BUILD.lock().unwrap();
    {
        let g = ANCHORS.lock().unwrap();
        if let Some(a) = g.as_ref().and_then(|m| m.get(&key)) {
            return Ok(a.clone());
        }
    }
    let mut cmd = Command::new("cargo");
    cmd.current_dir(harness_dir())
        .args(["build", "-p", "anchor", "--offline", "--message-format=json", "--features", &key])
        .arg("--target-dir")
        .arg(target_dir())
        .env("CARGO_NET_OFFLINE", "true")
        .stderr(Stdio::piped())
        .stdout(Stdio::piped());
    if let Some(repo) = std::env::var_os("VERIF_REPO") {
        let repo = std::fs::canonicalize(&repo).map_err(|e| format!("VERIF_REPO: {e}"))?;
        cmd.arg("--config").arg(format!("paths=[\"{}\",\"{}/derive\"]", repo.display(), repo.display()));
    }
    let out = cmd.output().map_err(|e| format!("cargo: {e}"))?;
    let stdout = String::from_utf8_lossy(&out.stdout);
    let mut externs: HashMap<String, PathBuf> = HashMap::new();
    let mut errors = String::new();
    for line in stdout.lines() {
        let Ok(v) = serde_json::from_str::<Value>(line) else { continue };
        match v["reason"].as_str() {
            Some("compiler-artifact") => {
                let name = v["target"]["name"].as_str().unwrap_or("").to_string();
                if ["scale_info", "parity_scale_codec", "vsupport", "bitvec"].contains(&name.as_str()) {
                    if let Some(f) = v["filenames"].as_array().and_then(|a| a.iter().filter_map(|x| x.as_str()).find(|x| x.ends_with(".rlib"))) {
                        externs.insert(name, PathBuf::from(f));
                    }
                }
            }
            Some("compiler-message") => {
                if v["message"]["level"] == "error" {
                    errors.push_str(v["message"]["rendered"].as_str().unwrap_or(""));
                }
            }
            _ => {}
        }
    }
    if !out.status.success() {
        return Err(format!(
            "anchor build failed for features [{key}]:\n{}\n{}",
            errors,
            String::from_utf8_lossy(&out.stderr).lines().rev().take(15).collect::<Vec<_>>().into_iter().rev().collect::<Vec<_>>().join("\n")
        ));
    }
    for need in ["scale_info", "parity_scale_codec", "vsupport"] {
        if !externs.contains_key(need) {
            return Err(format!("anchor build for [{key}] produced no {need} artefact"));
        }
    }
    let a = Arc::new(Anchor {
        features: fs,
        externs: externs.into_iter().collect(),
        deps_dir: target_dir().join("debug").join("deps"),
        manifest_dir: harness_dir().join("anchor"),
    });
    let mut g = ANCHORS.lock().unwrap();
    g.get_or_insert_with(HashMap::new).insert(key, a.clone());
    Ok(a)
}

#[derive(Debug, Clone)]
pub struct Diag {
    pub level: String,
    pub code: Option<String>,
    pub message: String,
    pub line: Option<u64>,
    pub rendered: String,
}

#[derive(Debug, Clone)]
pub struct CompileOut {
    pub success: bool,
    pub diags: Vec<Diag>,
    pub bin: Option<PathBuf>,
    pub raw_stderr: String,
}

impl CompileOut {
    pub fn errors(&self) -> Vec<&Diag> {
        self.diags.iter().filter(|d| d.level == "error" || d.level == "error: internal compiler error").collect()
    }
    pub fn error_codes(&self) -> Vec<String> {
        self.errors().iter().filter_map(|d| d.code.clone()).collect()
    }
    pub fn summary(&self) -> String {
        self.errors().iter().take(4).map(|d| format!("{}{}: {}", d.code.as_deref().unwrap_or("-"), d.line.map(|l| format!("@{l}")).unwrap_or_default(), d.message.lines().next().unwrap_or(""))).collect::<Vec<_>>().join(" | ")
    }
    /// a derive that panicked rather than reporting an error
    pub fn proc_macro_panicked(&self) -> bool {
        self.errors().iter().any(|d| d.message.contains("proc-macro derive panicked") || d.message.contains("proc macro panicked"))
    }
}

thread_local! {
    static WORKDIR: std::cell::RefCell<Option<WorkDir>> = const { std::cell::RefCell::new(None) };
    static LAST: std::cell::RefCell<Option<(u128, bool, CompileOut)>> = const { std::cell::RefCell::new(None) };
}

/// scratch directory of one worker thread, removed when the thread ends
struct WorkDir(PathBuf);

impl Drop for WorkDir {
    fn drop(&mut self) {
        let _ = std::fs::remove_dir_all(&self.0);
    }
}

fn workdir() -> PathBuf {
    WORKDIR.with(|w| {
        let mut w = w.borrow_mut();
        if w.is_none() {
            static N: std::sync::atomic::AtomicUsize = std::sync::atomic::AtomicUsize::new(0);
            let n = N.fetch_add(1, std::sync::atomic::Ordering::SeqCst);
            let d = target_dir().join("prog").join(format!("{}-{}", std::process::id(), n));
            let _ = std::fs::create_dir_all(&d);
            *w = Some(WorkDir(d));
        }
        w.as_ref().unwrap().0.clone()
    })
}

/// remove this process's scratch directories and those of processes that no longer exist
/// (a worker killed by a signal, an interrupted run)
pub fn cleanup_workdirs() {
    let d = target_dir().join("prog");
    let me = std::process::id().to_string();
    if let Ok(rd) = std::fs::read_dir(&d) {
        for e in rd.flatten() {
            let name = e.file_name().to_string_lossy().to_string();
            let pid = name.split('-').next().unwrap_or("").to_string();
            // alive = a process of that id exists and is this engine (process ids are reused)
            let alive = std::fs::read_to_string(std::path::Path::new("/proc").join(&pid).join("comm")).map(|c| c.trim() == "vprog").unwrap_or(false);
            if pid == me || !alive {
                let _ = std::fs::remove_dir_all(e.path());
            }
        }
    }
}

/// compile one program; `link` = produce a runnable binary, otherwise type-check only
pub fn compile(a: &Anchor, src: &str, link: bool) -> Result<CompileOut, String> {
    let key = vcore::runner::hash128(&(src, &a.features, link));
    if let Some(hit) = LAST.with(|l| l.borrow().as_ref().filter(|(k, lk, _)| *k == key && *lk == link).map(|(_, _, o)| o.clone())) {
        return Ok(hit);
    }
    let dir = workdir();
    let srcp = dir.join("prog.rs");
    std::fs::write(&srcp, src).map_err(|e| format!("harness: write program: {e}"))?;
    let bin = dir.join("prog.bin");
    let _ = std::fs::remove_file(&bin);
    let mut cmd = Command::new("rustc");
    cmd.current_dir(&dir)
        .arg("--edition")
        .arg("2021")
        .arg("--crate-name")
        .arg("prog")
        .arg("--error-format=json")
        .arg("-L")
        .arg(format!("dependency={}", a.deps_dir.display()))
        .env("CARGO_MANIFEST_DIR", &a.manifest_dir)
        .env_remove("RUSTFLAGS");
    for (name, path) in &a.externs {
        cmd.arg("--extern").arg(format!("{}={}", name, path.display()));
    }
    if link {
        cmd.args(["-C", "opt-level=0", "-C", "debuginfo=0", "--crate-type", "bin", "-o"]).arg(&bin);
    } else {
        cmd.args(["--crate-type", "bin", "--emit=metadata", "-o"]).arg(dir.join("prog.rmeta"));
    }
    cmd.arg(&srcp);
    let out = cmd.output().map_err(|e| format!("harness: rustc could not be run: {e}"))?;
    let stderr = String::from_utf8_lossy(&out.stderr).to_string();
    let mut diags = vec![];
    for line in stderr.lines() {
        let Ok(v) = serde_json::from_str::<Value>(line) else { continue };
        if v["$message_type"] != "diagnostic" {
            continue;
        }
        let level = v["level"].as_str().unwrap_or("").to_string();
        if level != "error" && !level.starts_with("error") {
            continue;
        }
        diags.push(Diag {
            level,
            code: v["code"]["code"].as_str().map(|s| s.to_string()),
            message: v["message"].as_str().unwrap_or("").to_string(),
            line: v["spans"].as_array().and_then(|s| s.iter().find(|x| x["is_primary"] == true).or(s.first())).and_then(|s| s["line_start"].as_u64()),
            rendered: v["rendered"].as_str().unwrap_or("").to_string(),
        });
    }
    let success = out.status.success();
    if !success && diags.is_empty() {
        return Err(format!("rustc failed without diagnostics: {}", stderr.chars().take(600).collect::<String>()));
    }
    let res = CompileOut { success, diags, bin: if success && link { Some(bin) } else { None }, raw_stderr: stderr };
    LAST.with(|l| *l.borrow_mut() = Some((key, link, res.clone())));
    Ok(res)
}

pub struct RunOut {
    pub status: Option<i32>,
    pub signal: Option<i32>,
    pub timed_out: bool,
    pub stdout: String,
    pub stderr: String,
}

pub fn run(bin: &Path, args: &[String], timeout: Duration) -> Result<RunOut, String> {
    use std::io::Read;
    use std::os::unix::process::ExitStatusExt;
    let mut child = Command::new(bin).args(args).stdout(Stdio::piped()).stderr(Stdio::piped()).spawn().map_err(|e| format!("harness: spawn program: {e}"))?;
    let mut so = child.stdout.take().unwrap();
    let mut se = child.stderr.take().unwrap();
    let t_out = std::thread::spawn(move || {
        let mut s = String::new();
        let _ = so.read_to_string(&mut s);
        s
    });
    let t_err = std::thread::spawn(move || {
        let mut s = String::new();
        let _ = se.read_to_string(&mut s);
        s
    });
    let start = Instant::now();
    let mut timed_out = false;
    let status = loop {
        match child.try_wait().map_err(|e| format!("harness: wait: {e}"))? {
            Some(s) => break s,
            None => {
                if start.elapsed() > timeout {
                    let _ = child.kill();
                    timed_out = true;
                    break child.wait().map_err(|e| format!("harness: wait: {e}"))?;
                }
                std::thread::sleep(Duration::from_millis(2));
            }
        }
    };
    Ok(RunOut { status: status.code(), signal: status.signal(), timed_out, stdout: t_out.join().unwrap_or_default(), stderr: t_err.join().unwrap_or_default() })
}
