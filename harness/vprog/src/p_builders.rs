//! C17 (builder part): generated builder call chains, in compile-time and portable form, compiled
//! against scale-info with the docs feature on and off; the built Type must contain exactly what
//! was supplied, in order — except PhantomData members (erased) and feature-gated docs.

use crate::ast::{rust_str, Shape, TE};
use crate::farm;
use crate::gen;
use crate::p_values::{FULL, FULL_NODOCS};
use proptest::collection::vec;
use proptest::prelude::*;
use serde::{Deserialize, Serialize};
use serde_json::{json, Value};
use std::time::Duration;
use vcore::runner::*;

#[derive(Clone, Debug, Serialize, Deserialize, Hash, PartialEq, Eq)]
pub struct BDocs {
    pub always: bool,
    pub lines: Vec<String>,
}

#[derive(Clone, Debug, Serialize, Deserialize, Hash, PartialEq, Eq)]
pub struct BField {
    pub name: Option<String>,
    pub ty: TE,
    pub portable_ty: u32,
    pub compact: bool,
    pub type_name: Option<String>,
    pub docs: Option<BDocs>,
    /// permutation selector for the setter order
    pub order: u8,
}

#[derive(Clone, Debug, Serialize, Deserialize, Hash, PartialEq, Eq)]
pub struct BVariant {
    pub name: String,
    pub index: u8,
    pub shape: Shape,
    pub fields: Vec<BField>,
    pub docs: Option<BDocs>,
    pub discriminant: Option<u64>,
    pub unit_ctor: bool,
    pub order: u8,
}

#[derive(Clone, Debug, Serialize, Deserialize, Hash, PartialEq, Eq)]
pub enum BBody {
    Composite(Shape, Vec<BField>),
    Variant(Vec<BVariant>),
    /// `TypeDefTuple::new(vec![meta_type::<..>(), ..]).into()` (compile-time form only)
    Tuple(Vec<TE>),
}

#[derive(Clone, Debug, Serialize, Deserialize, Hash, PartialEq, Eq)]
pub struct BType {
    pub portable: bool,
    pub path: Vec<String>,
    pub params: Option<Vec<(String, Option<TE>, Option<u32>)>>,
    pub docs: Option<BDocs>,
    pub body: BBody,
    pub order: u8,
    /// 0 = builders end to end; 1 = the pieces are completed with the public finalize() calls and
    /// assembled through the direct constructors (Type::new, TypeDefComposite::new)
    #[serde(default)]
    pub assemble: u8,
}

fn perm(n: usize, sel: u8) -> Vec<usize> {
    // the sel-th permutation of 0..n (factorial number system)
    let mut items: Vec<usize> = (0..n).collect();
    let mut out = vec![];
    let mut k = sel as usize;
    for i in (1..=n).rev() {
        out.push(items.remove(k % i));
        k /= i;
    }
    out
}

fn str_list(v: &[String]) -> String {
    v.iter().map(|s| rust_str(s)).collect::<Vec<_>>().join(", ")
}

fn docs_call(d: &Option<BDocs>, portable: bool, docs_feature: bool) -> Option<String> {
    let d = d.as_ref()?;
    if portable {
        // the portable docs setter exists only with the docs feature
        if docs_feature {
            Some(format!(".docs_portable(vec![{}])", d.lines.iter().map(|s| format!("{}.to_string()", rust_str(s))).collect::<Vec<_>>().join(", ")))
        } else {
            None
        }
    } else if d.always {
        Some(format!(".docs_always(&[{}])", str_list(&d.lines)))
    } else {
        Some(format!(".docs(&[{}])", str_list(&d.lines)))
    }
}

fn field_chain(f: &BField, shape: Shape, portable: bool, docs_feature: bool, c: &crate::ast::PCtx) -> String {
    let mut calls: Vec<String> = vec![];
    if portable {
        calls.push(format!(".ty({}u32)", f.portable_ty));
    } else if f.compact {
        calls.push(format!(".compact::<{}>()", f.ty.rust(c)));
    } else {
        calls.push(format!(".ty::<{}>()", f.ty.rust(c)));
    }
    if shape == Shape::Named {
        let n = f.name.clone().unwrap_or_else(|| "x".into());
        calls.push(if portable { format!(".name({}.to_string())", rust_str(&n)) } else { format!(".name({})", rust_str(&n)) });
    }
    if let Some(t) = &f.type_name {
        calls.push(if portable { format!(".type_name({}.to_string())", rust_str(t)) } else { format!(".type_name({})", rust_str(t)) });
    }
    if let Some(d) = docs_call(&f.docs, portable, docs_feature) {
        calls.push(d);
    }
    let order = perm(calls.len(), f.order);
    let body: String = order.iter().map(|i| calls[*i].clone()).collect();
    format!(".{}(|f| f{})", if portable { "field_portable" } else { "field" }, body)
}

fn fields_chain(shape: Shape, fs: &[BField], portable: bool, docs_feature: bool, c: &crate::ast::PCtx) -> String {
    let ctor = match shape {
        Shape::Named => "Fields::named()",
        Shape::Unnamed => "Fields::unnamed()",
        Shape::Unit => "Fields::unit()",
    };
    let mut s = ctor.to_string();
    if shape != Shape::Unit {
        for f in fs {
            s.push_str(&field_chain(f, shape, portable, docs_feature, c));
        }
    }
    s
}

impl BType {
    pub fn source(&self, docs_feature: bool) -> String {
        let c = crate::ast::PCtx { defs: &[], self_name: None, self_params: vec![], lifetime: "'static", self_has_lifetime: false, qualified: false, spaced: false };
        let p = self.portable;
        let mut s = crate::ast::PRELUDE.replace("BITVEC_USE", "pub use bitvec::{order::{Lsb0, Msb0}, vec::BitVec};");
        s.push_str("use scale_info::{build::*, form::{MetaForm, PortableForm}, Path, Type, TypeParameter};\nfn main() {\n");
        // the type-level setters in a generated order (path always precedes the final body call)
        let mut calls: Vec<String> = vec![];
        if p {
            calls.push(format!(".path(Path::from_segments_unchecked(vec![{}]))", self.path.iter().map(|x| format!("{}.to_string()", rust_str(x))).collect::<Vec<_>>().join(", ")));
        } else if self.order % 2 == 0 && self.path.len() >= 2 {
            calls.push(format!(".path(Path::new({}, {}))", rust_str(self.path.last().unwrap()), rust_str(&self.path[..self.path.len() - 1].join("::"))));
        } else {
            calls.push(format!(".path(Path::from_segments(vec![{}]).unwrap())", str_list(&self.path)));
        }
        if let Some(ps) = &self.params {
            let items: Vec<String> = ps
                .iter()
                .map(|(n, t, id)| {
                    if p {
                        format!("TypeParameter::new_portable({}.to_string(), {})", rust_str(n), id.map(|i| format!("Some({i}u32.into())")).unwrap_or("None".into()))
                    } else {
                        format!("TypeParameter::new({}, {})", rust_str(n), t.as_ref().map(|t| format!("Some(meta_type::<{}>())", t.rust(&c))).unwrap_or("None".into()))
                    }
                })
                .collect();
            calls.push(format!(".type_params(vec![{}])", items.join(", ")));
        }
        if let Some(d) = docs_call(&self.docs, p, docs_feature) {
            calls.push(d);
        }
        let order = perm(calls.len(), self.order / 2);
        let head: String = order.iter().map(|i| calls[*i].clone()).collect();
        let direct = self.assemble % 2 == 1 && !matches!(self.body, BBody::Tuple(_));
        if let BBody::Tuple(elems) = &self.body {
            let metas: Vec<String> = elems.iter().map(|t| format!("meta_type::<{}>()", t.rust(&c))).collect();
            s.push_str(&format!("    let t: Type<MetaForm> = scale_info::TypeDefTuple::new(vec![{}]).into();\n", metas.join(", ")));
            s.push_str("    println!(\"INFO 0 {}\", vsupport::dump_type(&t));\n");
            let want: Vec<String> = elems.iter().filter(|t| !t.is_phantom()).map(|t| format!("meta_type::<{}>()", t.rust(&c))).collect();
            s.push_str(&format!("    let want_m: Vec<MetaType> = vec![{}];\n    println!(\"MEMBERS 0 {{}}\", vsupport::member_types(&t) == want_m);\n    println!(\"PARAMS 0 true\");\n}}\n", want.join(", ")));
            return s;
        }
        let tail = match &self.body {
            BBody::Tuple(_) => unreachable!(),
            BBody::Composite(shape, fs) => format!(".composite({})", fields_chain(*shape, fs, p, docs_feature, &c)),
            BBody::Variant(vs) => {
                let mut v = "Variants::new()".to_string();
                for var in vs {
                    let name = if p { format!("{}.to_string()", rust_str(&var.name)) } else { rust_str(&var.name) };
                    if var.unit_ctor && var.shape == Shape::Unit && var.docs.is_none() && var.discriminant.is_none() {
                        v.push_str(&format!(".variant_unit({name}, {})", var.index));
                        continue;
                    }
                    let mut vc: Vec<String> = vec![format!(".index({})", var.index)];
                    if var.shape != Shape::Unit || var.order % 2 == 0 {
                        vc.push(format!(".fields({})", fields_chain(var.shape, &var.fields, p, docs_feature, &c)));
                    }
                    if let Some(d) = docs_call(&var.docs, p, docs_feature) {
                        vc.push(d);
                    }
                    if let Some(x) = var.discriminant {
                        vc.push(format!(".discriminant({x})"));
                    }
                    let o = perm(vc.len(), var.order / 2);
                    v.push_str(&format!(".variant({name}, |v| v{})", o.iter().map(|i| vc[*i].clone()).collect::<String>()));
                }
                format!(".variant({v})")
            }
        };
        // direct assembly: Type::new(path, params, definition, docs) over finalize()d pieces
        let direct_expr = || -> String {
            let path_arg = calls[0].trim_start_matches(".path(").strip_suffix(')').unwrap_or("").to_string();
            let params_arg = calls.iter().find_map(|c| c.strip_prefix(".type_params(").and_then(|x| x.strip_suffix(')'))).map(|x| x.to_string()).unwrap_or_else(|| format!("Vec::<TypeParameter<{}>>::new()", if p { "PortableForm" } else { "MetaForm" }));
            let def = match &self.body {
                BBody::Composite(shape, fs) => format!("scale_info::TypeDefComposite::new({}.finalize())", fields_chain(*shape, fs, p, docs_feature, &c)),
                _ => format!("{}.finalize()", tail.trim_start_matches(".variant(").strip_suffix(')').unwrap_or("")),
            };
            let docs = match &self.docs {
                None => "Vec::new()".to_string(),
                Some(d) => {
                    if p {
                        format!("vec![{}]", d.lines.iter().map(|x| format!("{}.to_string()", rust_str(x))).collect::<Vec<_>>().join(", "))
                    } else {
                        format!("vec![{}]", str_list(&d.lines))
                    }
                }
            };
            format!("Type::new({path_arg}, {params_arg}, {def}, {docs})")
        };
        if p {
            if direct {
                s.push_str(&format!("    let t: Type<PortableForm> = {};\n", direct_expr()));
            } else {
                s.push_str(&format!("    let t: Type<PortableForm> = Type::builder_portable(){head}{tail};\n"));
            }
            s.push_str("    println!(\"PTYPE {}\", scale_info_json(&t));\n");
        } else {
            if direct {
                s.push_str(&format!("    let t: Type<MetaForm> = {};\n", direct_expr()));
            } else {
                s.push_str(&format!("    let t: Type<MetaForm> = Type::builder(){head}{tail};\n"));
            }
            s.push_str("    println!(\"INFO 0 {}\", vsupport::dump_type(&t));\n");
            let members: Vec<String> = self.expected_members().iter().map(|f| if f.compact { format!("meta_type::<Compact<{}>>()", f.ty.rust(&c)) } else { format!("meta_type::<{}>()", f.ty.rust(&c)) }).collect();
            s.push_str(&format!("    let want_m: Vec<MetaType> = vec![{}];\n    println!(\"MEMBERS 0 {{}}\", vsupport::member_types(&t) == want_m);\n", members.join(", ")));
            let params: Vec<String> = self.params.clone().unwrap_or_default().iter().map(|(_, t, _)| t.as_ref().map(|t| format!("Some(meta_type::<{}>())", t.rust(&c))).unwrap_or("None".into())).collect();
            s.push_str(&format!("    let want_p: Vec<Option<MetaType>> = vec![{}];\n    println!(\"PARAMS 0 {{}}\", vsupport::param_types(&t) == want_p);\n", params.join(", ")));
        }
        s.push_str("}\n");
        if p {
            // the portable type is printed through scale-info's own serde support plus its SCALE bytes
            s.push_str("fn scale_info_json(t: &Type<PortableForm>) -> String { vsupport::hex(&parity_scale_codec::Encode::encode(t)) }\n");
        }
        s
    }

    fn all_fields(&self) -> Vec<(&BField, Shape)> {
        match &self.body {
            BBody::Tuple(_) => vec![],
            BBody::Composite(sh, fs) => {
                if *sh == Shape::Unit {
                    vec![]
                } else {
                    fs.iter().map(|f| (f, *sh)).collect()
                }
            }
            BBody::Variant(vs) => vs
                .iter()
                .flat_map(|v| {
                    let used = !(v.unit_ctor && v.shape == Shape::Unit && v.docs.is_none() && v.discriminant.is_none()) && (v.shape != Shape::Unit);
                    if used {
                        v.fields.iter().map(|f| (f, v.shape)).collect::<Vec<_>>()
                    } else {
                        vec![]
                    }
                })
                .collect(),
        }
    }

    /// members that must be listed: everything supplied except PhantomData-typed ones (MetaForm only)
    fn expected_members(&self) -> Vec<&BField> {
        self.all_fields().into_iter().map(|(f, _)| f).filter(|f| self.portable || f.compact || !f.ty.is_phantom()).collect()
    }
}

fn kept_docs(d: &Option<BDocs>, portable: bool, docs_feature: bool) -> Vec<String> {
    match d {
        None => vec![],
        Some(d) => {
            if portable {
                if docs_feature {
                    d.lines.clone()
                } else {
                    vec![]
                }
            } else if d.always || docs_feature {
                d.lines.clone()
            } else {
                vec![]
            }
        }
    }
}

/// docs expected on the type itself: through the setters they follow the feature rules, handed to
/// Type::new they are simply stored
fn type_docs(t: &BType, docs_feature: bool) -> Vec<String> {
    if t.assemble % 2 == 1 && !matches!(t.body, BBody::Tuple(_)) {
        t.docs.as_ref().map(|d| d.lines.clone()).unwrap_or_default()
    } else {
        kept_docs(&t.docs, t.portable, docs_feature)
    }
}

pub fn builder_body(t: &BType, obs: &mut Obs, docs_feature: bool) -> Result<(), String> {
    let feats: &[&str] = if docs_feature { &FULL } else { &FULL_NODOCS };
    let a = farm::anchor(feats)?;
    let src = t.source(docs_feature);
    let out = farm::compile(&a, &src, true)?;
    if !out.success {
        // Every generated chain follows the documented typestate order and compiles on a tree where
        // the builders are intact. A type error at a builder call means the builders reject a
        // valid sequence of calls; anything else (a typo-class error) is the generator's fault.
        let codes = out.error_codes();
        let typo = codes.iter().any(|c| ["E0412", "E0425", "E0432", "E0433", "E0061", "E0107"].contains(&c.as_str()));
        let type_error = codes.iter().any(|c| ["E0599", "E0308", "E0271", "E0277", "E0631", "E0282", "E0283", "E0284"].contains(&c.as_str()));
        if type_error && !typo {
            return obs.fail_sig("builder-rejects-valid-chain", format!("a builder chain that follows the documented typestate order does not compile: {} || {}", out.summary(), src.lines().filter(|l| l.contains("let t")).collect::<Vec<_>>().join(" ").chars().take(400).collect::<String>()));
        }
        return Err(format!("harness bug: builder chain does not compile: {}", out.summary()));
    }
    let run = farm::run(out.bin.as_ref().unwrap(), &[], Duration::from_secs(20))?;
    if run.status != Some(0) {
        return Err(format!("[sig:builder-panic] a well-typed builder chain panicked: {}", run.stderr.lines().find(|l| l.contains("panicked")).unwrap_or("")));
    }
    let p = t.portable;
    let exp_field = |f: &BField, shape: Shape| -> (Option<String>, Option<String>, Vec<String>) {
        (if shape == Shape::Named { Some(f.name.clone().unwrap_or_else(|| "x".into())) } else { None }, f.type_name.clone(), kept_docs(&f.docs, p, docs_feature))
    };
    if p {
        use vcore::model::*;
        let line = run.stdout.lines().find_map(|l| l.strip_prefix("PTYPE ")).ok_or("harness: no PTYPE line")?;
        let bytes = vsupport::unhex(line);
        let mut rd = vcore::refcodec::Rd::new(&bytes);
        let got = rd.ty().map_err(|e| format!("harness: portable type does not decode: {e}"))?;
        let mf = |f: &BField, shape: Shape| {
            let (name, type_name, docs) = exp_field(f, shape);
            MField { name, ty: f.portable_ty, type_name, docs }
        };
        let want = MType {
            path: t.path.clone(),
            params: t.params.clone().unwrap_or_default().into_iter().map(|(n, _, id)| MParam { name: n, ty: id }).collect(),
            def: match &t.body {
                BBody::Tuple(_) => MDef::Tuple(vec![]),
                BBody::Composite(sh, fs) => MDef::Composite(if *sh == Shape::Unit { vec![] } else { fs.iter().map(|f| mf(f, *sh)).collect() }),
                BBody::Variant(vs) => MDef::Variant(
                    vs.iter()
                        .map(|v| {
                            let unit = v.unit_ctor && v.shape == Shape::Unit && v.docs.is_none() && v.discriminant.is_none();
                            MVariant {
                                name: v.name.clone(),
                                fields: if unit || v.shape == Shape::Unit { vec![] } else { v.fields.iter().map(|f| mf(f, v.shape)).collect() },
                                index: v.index,
                                docs: if unit { vec![] } else { kept_docs(&v.docs, p, docs_feature) },
                            }
                        })
                        .collect(),
                ),
            },
            docs: type_docs(t, docs_feature),
        };
        if got != want {
            return Err(format!("[sig:builder-lossy] portable builder result differs from what was supplied: got {:?}, supplied {:?}", got, want));
        }
    } else {
        let info: Value = run.stdout.lines().find_map(|l| l.strip_prefix("INFO 0 ")).and_then(|l| serde_json::from_str(l).ok()).ok_or("harness: no INFO line")?;
        let strs = |v: &Value| -> Vec<String> { v.as_array().map(|a| a.iter().map(|x| x.as_str().unwrap_or("").to_string()).collect()).unwrap_or_default() };
        let is_tuple = matches!(&t.body, BBody::Tuple(_));
        // (a tuple definition has no path, parameters or docs of its own: only its elements are supplied)
        if !is_tuple && strs(&info["path"]) != t.path {
            return Err(format!("[sig:builder-lossy] path {:?}, supplied {:?}", strs(&info["path"]), t.path));
        }
        let want_params: Vec<(String, bool)> = t.params.clone().unwrap_or_default().iter().map(|(n, ty, _)| (n.clone(), ty.is_some())).collect();
        let got_params: Vec<(String, bool)> = info["params"].as_array().map(|a| a.iter().map(|x| (x[0].as_str().unwrap_or("").to_string(), x[1].as_bool().unwrap_or(false))).collect()).unwrap_or_default();
        if !is_tuple && got_params != want_params {
            return Err(format!("[sig:builder-lossy] type parameters {:?}, supplied {:?}", got_params, want_params));
        }
        if !is_tuple && strs(&info["docs"]) != type_docs(t, docs_feature) {
            return Err(format!("[sig:builder-docs] type docs {:?}, supplied {:?} (docs feature {docs_feature})", strs(&info["docs"]), t.docs));
        }
        let cmp = |got: &Value, fs: Vec<(&BField, Shape)>, what: &str| -> Result<(), String> {
            let got = got.as_array().cloned().unwrap_or_default();
            let want: Vec<&(&BField, Shape)> = fs.iter().filter(|(f, _)| f.compact || !f.ty.is_phantom()).collect();
            if got.len() != want.len() {
                return Err(format!("[sig:builder-members] {what}: {} members listed, {} supplied that are not PhantomData", got.len(), want.len()));
            }
            for (g, (f, sh)) in got.iter().zip(want) {
                let (name, type_name, docs) = exp_field(f, *sh);
                if g["name"].as_str().map(|x| x.to_string()) != name || g["type_name"].as_str().map(|x| x.to_string()) != type_name {
                    return Err(format!("[sig:builder-lossy] {what}: member {g}, supplied name {:?} type name {:?}", name, type_name));
                }
                if strs(&g["docs"]) != docs {
                    return Err(format!("[sig:builder-docs] {what}: member docs {:?}, expected {:?} (docs feature {docs_feature})", strs(&g["docs"]), docs));
                }
            }
            Ok(())
        };
        match &t.body {
            BBody::Tuple(elems) => {
                let want = elems.iter().filter(|e| !e.is_phantom()).count() as u64;
                if info["kind"] != "tuple" || info["arity"].as_u64() != Some(want) {
                    return Err(format!("[sig:builder-members] TypeDefTuple::new: described as {info}, {} elements supplied of which {want} are not PhantomData", elems.len()));
                }
            }
            BBody::Composite(sh, fs) => {
                if info["kind"] != "composite" {
                    return Err("[sig:builder-lossy] not a composite".into());
                }
                cmp(&info["fields"], if *sh == Shape::Unit { vec![] } else { fs.iter().map(|f| (f, *sh)).collect() }, "composite")?;
            }
            BBody::Variant(vs) => {
                let gv = info["variants"].as_array().cloned().unwrap_or_default();
                if info["kind"] != "variant" || gv.len() != vs.len() {
                    return Err(format!("[sig:builder-lossy] {} variants listed, {} supplied", gv.len(), vs.len()));
                }
                for (g, v) in gv.iter().zip(vs) {
                    let unit = v.unit_ctor && v.shape == Shape::Unit && v.docs.is_none() && v.discriminant.is_none();
                    if g["name"].as_str() != Some(v.name.as_str()) || g["index"].as_u64() != Some(v.index as u64) {
                        return Err(format!("[sig:builder-lossy] variant {g}, supplied ({:?}, index {})", v.name, v.index));
                    }
                    let want_docs = if unit { vec![] } else { kept_docs(&v.docs, p, docs_feature) };
                    if strs(&g["docs"]) != want_docs {
                        return Err(format!("[sig:builder-docs] variant {} docs {:?}, expected {:?}", v.name, strs(&g["docs"]), want_docs));
                    }
                    cmp(&g["fields"], if unit || v.shape == Shape::Unit { vec![] } else { v.fields.iter().map(|f| (f, v.shape)).collect() }, &format!("variant {}", v.name))?;
                }
            }
        }
        let flag = |tag: &str| run.stdout.lines().find_map(|l| l.strip_prefix(tag)).map(|x| x.trim() == "true");
        if flag("MEMBERS 0 ") != Some(true) {
            return Err("[sig:builder-members] the member types are not the supplied ones minus PhantomData members".into());
        }
        if flag("PARAMS 0 ") != Some(true) {
            return Err("[sig:builder-lossy] the parameter types are not the supplied ones".into());
        }
    }
    let n_members = t.all_fields().len() + match &t.body {
        BBody::Variant(vs) => vs.len(),
        BBody::Tuple(es) => es.len(),
        _ => 0,
    };
    if let BBody::Tuple(es) = &t.body {
        obs.class("body/tuple");
        if es.iter().any(|e| e.is_phantom()) {
            obs.class("tuple/phantom_element_supplied");
            if es.iter().position(|e| e.is_phantom()).map_or(false, |i| es[i + 1..].iter().any(|e| !e.is_phantom())) {
                obs.class("tuple/phantom_before_real_element");
            }
        }
        if n_members >= 2 {
            obs.nontrivial(&(t, docs_feature));
        }
    }
    let optional_set = t.docs.is_some() || t.params.is_some() || t.all_fields().iter().any(|(f, _)| f.type_name.is_some() || f.docs.is_some());
    if n_members >= 2 && optional_set {
        obs.nontrivial(&(t, docs_feature));
    }
    obs.class(if p { "form/portable" } else { "form/compile_time" });
    if t.assemble % 2 == 1 && !matches!(t.body, BBody::Tuple(_)) {
        obs.class("assembly/finalize_and_direct_constructors");
    }
    obs.class(if docs_feature { "cfg/docs_on" } else { "cfg/docs_off" });
    if t.all_fields().iter().any(|(f, _)| !p && !f.compact && f.ty.is_phantom()) {
        obs.class("member/phantom_supplied");
    }
    if t.all_fields().iter().any(|(f, _)| f.docs.as_ref().map_or(false, |d| !d.always)) || t.docs.as_ref().map_or(false, |d| !d.always) {
        obs.class("docs/feature_gated_setter");
    }
    if t.all_fields().iter().any(|(f, _)| f.docs.as_ref().map_or(false, |d| d.always)) || t.docs.as_ref().map_or(false, |d| d.always) {
        obs.class("docs/always_setter");
    }
    if obs.want_sample() {
        let chain: String = src.lines().filter(|l| l.contains("let t: Type<")).collect::<Vec<_>>().join("\n");
        obs.sample(json!({"docs_feature": docs_feature, "builder_chain": vcore::p_reg::truncate(&chain, 1500)}));
    }
    Ok(())
}

// -------------------------------------------------------------------------------- generators

fn ident() -> impl Strategy<Value = String> {
    prop_oneof![
        4 => prop::sample::select(vec!["a", "b", "value", "r#type", "_x", "Name", "T", "deep", "m0", "Z9"]).prop_map(|s| s.to_string()),
        1 => "[A-Za-z_][A-Za-z0-9_]{0,6}",
    ]
}

fn text() -> impl Strategy<Value = String> {
    prop_oneof![
        3 => prop::sample::select(vec!["", "doc", " leading", "two\nlines", "üñí \u{10348}", "\"q\" \\ {b}", "Vec<T>", "&'static str", "<T as Tr>::A"]).prop_map(|s| s.to_string()),
        1 => "[ -~]{0,12}",
    ]
}

fn bdocs() -> impl Strategy<Value = Option<BDocs>> {
    prop::option::weighted(0.5, (any::<bool>(), vec(text(), 0..3)).prop_map(|(always, lines)| BDocs { always, lines }))
}

fn bfield() -> impl Strategy<Value = BField> {
    let ty = prop_oneof![
        6 => gen::te(1, false, true, vec![]),
        2 => gen::te(1, false, false, vec![]).prop_map(|t| TE::Phantom(Box::new(t))),
        1 => Just(TE::Box(Box::new(TE::Phantom(Box::new(TE::U(8)))))),
    ];
    (ident(), ty, vcore::genreg::id_wild(), prop::bool::weighted(0.1), prop::option::weighted(0.6, text()), bdocs(), any::<u8>()).prop_map(|(name, ty, portable_ty, compact, type_name, docs, order)| {
        // compact members: integers only (HasCompact)
        let (ty, compact) = if compact { (TE::U([8u8, 16, 32, 64, 128][(order % 5) as usize]), true) } else { (ty, false) };
        BField { name: Some(name), ty, portable_ty, compact, type_name, docs, order }
    })
}

fn shape() -> impl Strategy<Value = Shape> {
    prop_oneof![3 => Just(Shape::Named), 3 => Just(Shape::Unnamed), 1 => Just(Shape::Unit)]
}

pub fn btype(portable: bool) -> BoxedStrategy<BType> {
    let variant = (ident(), any::<u8>(), shape(), vec(bfield(), 0..4), bdocs(), prop::option::weighted(0.2, any::<u64>()), prop::bool::weighted(0.3), any::<u8>())
        .prop_map(|(name, index, shape, fields, docs, discriminant, unit_ctor, order)| BVariant { name, index, shape, fields, docs, discriminant, unit_ctor, order });
    let elem = prop_oneof![
        3 => gen::te(1, false, true, vec![]),
        2 => gen::te(1, false, false, vec![]).prop_map(|t| TE::Phantom(Box::new(t))),
        1 => Just(TE::Rc(Box::new(TE::Phantom(Box::new(TE::String))))),
    ];
    let body = if portable {
        prop_oneof![
            1 => (shape(), vec(bfield(), 0..5)).prop_map(|(s, f)| BBody::Composite(s, f)),
            1 => vec(variant, 0..5).prop_map(BBody::Variant),
        ]
        .boxed()
    } else {
        prop_oneof![
            3 => (shape(), vec(bfield(), 0..5)).prop_map(|(s, f)| BBody::Composite(s, f)),
            3 => vec(variant, 0..5).prop_map(BBody::Variant),
            2 => vec(elem, 0..6).prop_map(BBody::Tuple),
        ]
        .boxed()
    };
    let params = prop::option::weighted(0.5, vec((ident(), prop::option::weighted(0.7, gen::te(1, false, true, vec![])), prop::option::weighted(0.7, vcore::genreg::id_wild())), 0..3));
    (vec(ident(), 1..4), params, bdocs(), body, any::<u8>(), prop::bool::weighted(0.3))
        .prop_map(move |(path, params, docs, body, order, direct)| {
            // the compile-time form takes Some/None from the type, the portable form from the id
            let params = params.map(|ps| ps.into_iter().map(|(n, t, id)| if portable { (n, None, id) } else { (n, t, None) }).collect());
            BType { portable, path, params, docs, body, order, assemble: direct as u8 }
        })
        .boxed()
}
