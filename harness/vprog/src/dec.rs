//! D — schema-directed value decoder: "a decoder that knows only the PortableRegistry and the
//! SCALE rules". Works on the plain-data model of the registry (public fields only).

use vcore::model::*;
use vsupport::Val;

pub struct Dec<'a> {
    pub reg: &'a MReg,
    pub buf: &'a [u8],
    pub pos: usize,
    depth: u32,
}

type R<T> = Result<T, String>;

impl<'a> Dec<'a> {
    pub fn new(reg: &'a MReg, buf: &'a [u8]) -> Self {
        Dec { reg, buf, pos: 0, depth: 0 }
    }
    fn ty(&self, id: u32) -> R<&'a MType> {
        // a consumer resolves ids the way `PortableRegistry::resolve` does - by position - so that
        // is what "from the registry description alone" means here; the entry found must also be
        // the one labelled `id` (a registry with a hole or a shifted tail describes other bytes)
        let first = self.reg.types.get(id as usize).ok_or_else(|| format!("[sig:dangling] type id {id} is not in the registry"))?;
        if first.id != id {
            return Err(format!("[sig:dangling] type id {id} resolves (by position) to the entry labelled {}", first.id));
        }
        Ok(&first.ty)
    }
    fn take(&mut self, n: usize) -> R<&'a [u8]> {
        if self.buf.len() - self.pos < n {
            return Err(format!("[sig:short] encoding ends early: need {n} bytes at offset {} of {}", self.pos, self.buf.len()));
        }
        let s = &self.buf[self.pos..self.pos + n];
        self.pos += n;
        Ok(s)
    }
    fn uint(&mut self, bytes: usize) -> R<u128> {
        let s = self.take(bytes)?;
        let mut b = [0u8; 16];
        b[..bytes].copy_from_slice(s);
        Ok(u128::from_le_bytes(b))
    }
    fn int(&mut self, bytes: usize) -> R<i128> {
        let u = self.uint(bytes)?;
        let shift = 128 - 8 * bytes as u32;
        Ok(((u << shift) as i128) >> shift)
    }
    pub fn compact(&mut self) -> R<u128> {
        let b0 = self.take(1)?[0];
        match b0 & 3 {
            0 => Ok((b0 >> 2) as u128),
            1 => {
                let b1 = self.take(1)?[0];
                Ok((u16::from_le_bytes([b0, b1]) >> 2) as u128)
            }
            2 => {
                let r = self.take(3)?;
                Ok((u32::from_le_bytes([b0, r[0], r[1], r[2]]) >> 2) as u128)
            }
            _ => {
                let n = (b0 >> 2) as usize + 4;
                if n > 16 {
                    return Err(format!("compact integer of {n} bytes"));
                }
                self.uint(n)
            }
        }
    }
    fn fields(&mut self, fs: &'a [MField]) -> R<Vec<(Option<String>, Val)>> {
        fs.iter().map(|f| Ok((f.name.clone(), self.value(f.ty)?))).collect()
    }
    /// the unsigned primitive (bit width) or unit a compact type ultimately wraps, with the
    /// chain of single-field composites around it
    fn compact_inner(&mut self, id: u32, fuel: u32) -> R<Val> {
        if fuel == 0 {
            return Err("compact: wrapper chain too deep".into());
        }
        let t = self.ty(id)?;
        match &t.def {
            MDef::Primitive(p) => {
                let bits = match p {
                    MPrim::U8 => 8,
                    MPrim::U16 => 16,
                    MPrim::U32 => 32,
                    MPrim::U64 => 64,
                    MPrim::U128 => 128,
                    other => return Err(format!("[sig:compact-of-non-unsigned] compact of primitive {other:?}")),
                };
                let v = self.compact()?;
                if bits < 128 && v >> bits != 0 {
                    return Err(format!("compact value {v} does not fit the described u{bits}"));
                }
                Ok(Val::U(v))
            }
            MDef::Tuple(ts) if ts.is_empty() => Ok(Val::Tup(vec![])),
            MDef::Composite(fs) if fs.len() == 1 => {
                let inner = self.compact_inner(fs[0].ty, fuel - 1)?;
                Ok(Val::Comp(vec![(fs[0].name.clone(), inner)]))
            }
            other => Err(format!("[sig:compact-of-non-integer] compact of a {} type", other.kind())),
        }
    }
    pub fn value(&mut self, id: u32) -> R<Val> {
        self.depth += 1;
        if self.depth > 200 {
            return Err("value nesting deeper than 200".into());
        }
        let t = self.ty(id)?;
        let v = match &t.def {
            MDef::Composite(fs) => Val::Comp(self.fields(fs)?),
            MDef::Variant(vs) => {
                let idx = self.take(1)?[0];
                let mut it = vs.iter().filter(|v| v.index == idx);
                let v = it.next().ok_or_else(|| format!("[sig:no-such-variant] first byte {idx} is not the index of any variant of {:?} (indices {:?})", t.path, vs.iter().map(|v| v.index).collect::<Vec<_>>()))?;
                if it.next().is_some() {
                    return Err(format!("[sig:duplicate-index] two variants of {:?} carry index {idx}", t.path));
                }
                Val::Var(v.name.clone(), self.fields(&v.fields)?)
            }
            MDef::Sequence(e) => {
                let n = self.compact()? as usize;
                if n > self.buf.len() - self.pos && !self.zero_sized(*e) {
                    return Err(format!("[sig:short] sequence of {n} elements in {} remaining bytes", self.buf.len() - self.pos));
                }
                if n > 1 << 20 {
                    // no generated value is that long; a zero-sized element type would make this loop
                    return Err(format!("[sig:short] sequence length {n} is not one a generated value has"));
                }
                Val::Seq((0..n).map(|_| self.value(*e)).collect::<R<_>>()?)
            }
            MDef::Array { len, ty } => Val::Arr((0..*len).map(|_| self.value(*ty)).collect::<R<_>>()?),
            MDef::Tuple(ts) => Val::Tup(ts.iter().map(|t| self.value(*t)).collect::<R<_>>()?),
            MDef::Primitive(p) => match p {
                MPrim::Bool => match self.take(1)?[0] {
                    0 => Val::Bool(false),
                    1 => Val::Bool(true),
                    b => return Err(format!("bool byte {b}")),
                },
                MPrim::Char => Val::U(self.uint(4)?),
                MPrim::Str => {
                    let n = self.compact()? as usize;
                    let s = self.take(n)?;
                    Val::Str(String::from_utf8(s.to_vec()).map_err(|_| "str is not UTF-8".to_string())?)
                }
                MPrim::U8 => Val::U(self.uint(1)?),
                MPrim::U16 => Val::U(self.uint(2)?),
                MPrim::U32 => Val::U(self.uint(4)?),
                MPrim::U64 => Val::U(self.uint(8)?),
                MPrim::U128 => Val::U(self.uint(16)?),
                MPrim::I8 => Val::I(self.int(1)?),
                MPrim::I16 => Val::I(self.int(2)?),
                MPrim::I32 => Val::I(self.int(4)?),
                MPrim::I64 => Val::I(self.int(8)?),
                MPrim::I128 => Val::I(self.int(16)?),
                MPrim::U256 | MPrim::I256 => return Err("256-bit primitives have no Rust value here".into()),
            },
            MDef::Compact(inner) => self.compact_inner(*inner, 8)?,
            MDef::BitSequence { store, order } => {
                let w = match &self.ty(*store)?.def {
                    MDef::Primitive(MPrim::U8) => 1usize,
                    MDef::Primitive(MPrim::U16) => 2,
                    MDef::Primitive(MPrim::U32) => 4,
                    MDef::Primitive(MPrim::U64) => 8,
                    other => return Err(format!("[sig:bitstore] bit store described as {}", other.kind())),
                };
                let ord = self.ty(*order)?;
                let msb = match ord.path.last().map(|s| s.as_str()) {
                    Some("Lsb0") => false,
                    Some("Msb0") => true,
                    other => return Err(format!("[sig:bitorder] bit order described by path {other:?}")),
                };
                let n = self.compact()? as usize;
                let bits_per = w * 8;
                let words = (n + bits_per - 1) / bits_per;
                // (the length is untrusted: a wrong description makes the decoder read garbage)
                if words.saturating_mul(w) > self.buf.len() - self.pos {
                    return Err(format!("[sig:short] bit sequence of {n} bits in {} remaining bytes", self.buf.len() - self.pos));
                }
                let mut out = Vec::with_capacity(n);
                let mut ws = vec![];
                for _ in 0..words {
                    ws.push(self.uint(w)?);
                }
                for i in 0..n {
                    let word = ws[i / bits_per];
                    let k = i % bits_per;
                    let bit = if msb { (word >> (bits_per - 1 - k)) & 1 } else { (word >> k) & 1 };
                    out.push(bit == 1);
                }
                Val::Bits(out)
            }
        };
        self.depth -= 1;
        Ok(v)
    }
    /// does a value of this type occupy zero bytes (units, PhantomData, empty composites)?
    fn zero_sized(&self, id: u32) -> bool {
        fn go(d: &Dec, id: u32, fuel: u32) -> bool {
            if fuel == 0 {
                return false;
            }
            match d.ty(id).map(|t| &t.def) {
                Ok(MDef::Composite(fs)) => fs.iter().all(|f| go(d, f.ty, fuel - 1)),
                Ok(MDef::Tuple(ts)) => ts.iter().all(|t| go(d, *t, fuel - 1)),
                Ok(MDef::Array { len, ty }) => *len == 0 || go(d, *ty, fuel - 1),
                Ok(MDef::Compact(t)) => go(d, *t, fuel - 1),
                _ => false,
            }
        }
        go(self, id, 6)
    }
}

/// equality that treats `Bag` (order not asserted) against `Seq`
pub fn val_eq(model: &Val, decoded: &Val) -> bool {
    use Val::*;
    let fields = |a: &[(Option<String>, Val)], b: &[(Option<String>, Val)]| a.len() == b.len() && a.iter().zip(b).all(|((n1, v1), (n2, v2))| n1 == n2 && val_eq(v1, v2));
    match (model, decoded) {
        (Bag(a), Seq(b)) => {
            let mut b2 = b.clone();
            b2.sort();
            a.len() == b2.len() && a.iter().zip(b2.iter()).all(|(x, y)| val_eq(x, y))
        }
        (Seq(a), Seq(b)) | (Arr(a), Arr(b)) | (Tup(a), Tup(b)) => a.len() == b.len() && a.iter().zip(b).all(|(x, y)| val_eq(x, y)),
        (Comp(a), Comp(b)) => fields(a, b),
        (Var(n1, a), Var(n2, b)) => n1 == n2 && fields(a, b),
        (Erased, Comp(b)) => b.is_empty(),
        (a, b) => a == b,
    }
}

pub fn val_from_json(v: &serde_json::Value) -> Result<Val, String> {
    let o = v.as_object().ok_or("val: not an object")?;
    let (k, x) = o.iter().next().ok_or("val: empty object")?;
    let list = |x: &serde_json::Value| -> Result<Vec<Val>, String> { x.as_array().ok_or("val: list")?.iter().map(val_from_json).collect() };
    let fields = |x: &serde_json::Value| -> Result<Vec<(Option<String>, Val)>, String> {
        x.as_array()
            .ok_or("val: fields")?
            .iter()
            .map(|p| {
                let p = p.as_array().ok_or("val: field pair")?;
                Ok((p[0].as_str().map(|s| s.to_string()), val_from_json(&p[1])?))
            })
            .collect()
    };
    Ok(match k.as_str() {
        "Bool" => Val::Bool(x.as_bool().ok_or("val: bool")?),
        "U" => Val::U(x.as_str().ok_or("val: U")?.parse().map_err(|_| "val: U parse")?),
        "I" => Val::I(x.as_str().ok_or("val: I")?.parse().map_err(|_| "val: I parse")?),
        "Str" => Val::Str(x.as_str().ok_or("val: Str")?.to_string()),
        "Seq" => Val::Seq(list(x)?),
        "Bag" => Val::Bag(list(x)?),
        "Arr" => Val::Arr(list(x)?),
        "Tup" => Val::Tup(list(x)?),
        "Comp" => Val::Comp(fields(x)?),
        "Var" => {
            let a = x.as_array().ok_or("val: Var")?;
            Val::Var(a[0].as_str().ok_or("val: Var name")?.to_string(), fields(&a[1])?)
        }
        "Erased" => Val::Erased,
        "Bits" => Val::Bits(x.as_str().ok_or("val: Bits")?.chars().map(|c| c == '1').collect()),
        other => return Err(format!("val: unknown tag {other}")),
    })
}
