//! Grammar AST for generated programs: type expressions over the built-in constructors, derive
//! inputs (struct/enum definitions with codec / scale_info attributes and docs), the printer, the
//! emitted `Gen` impls (value generation + expected decoded value) and the expected compile-time
//! description of every definition — all computed from the AST, never from scale-info.

use serde::{Deserialize, Serialize};

#[derive(Clone, Debug, PartialEq, Eq, Hash, Serialize, Deserialize)]
pub enum TE {
    Bool,
    U(u8),
    I(u8),
    Char,
    /// `&'static str`
    Str,
    /// `&'a str` (only inside a definition that declares `'a`)
    StrA,
    /// `&'a [T]`
    SliceA(Box<TE>),
    /// the unsized `[T]` (only behind `Ref`, after substituting `'a` by `'static`)
    SliceStatic(Box<TE>),
    String,
    Unit,
    Array(Box<TE>, u32),
    Tuple(Vec<TE>),
    Vec(Box<TE>),
    VecDeque(Box<TE>),
    Box(Box<TE>),
    Rc(Box<TE>),
    Arc(Box<TE>),
    /// `&'static T`
    Ref(Box<TE>),
    Option(Box<TE>),
    Result(Box<TE>, Box<TE>),
    CowStr,
    CowSlice(Box<TE>),
    Cow(Box<TE>),
    Map(Box<TE>, Box<TE>),
    Set(Box<TE>),
    Heap(Box<TE>),
    /// `Compact<uN>`; 0 = `Compact<()>`
    Compact(u8),
    Range(Box<TE>),
    RangeIncl(Box<TE>),
    NonZeroU(u8),
    NonZeroI(u8),
    Duration,
    Phantom(Box<TE>),
    /// store bits, msb0?
    BitVec(u8, bool),
    /// the prelude CompactAs newtype `CW(u32)`
    CW,
    /// earlier definition #i with generic arguments
    Def(usize, Vec<TE>),
    /// type parameter #i of the enclosing definition
    Param(u8),
    /// the enclosing definition itself (with its own parameters)
    SelfTy,
}

pub const PARAM_NAMES: [&str; 4] = ["T", "U", "V", "W"];

impl TE {
    pub fn children(&self) -> Vec<&TE> {
        match self {
            TE::SliceA(a) | TE::SliceStatic(a) | TE::Array(a, _) | TE::Vec(a) | TE::VecDeque(a) | TE::Box(a) | TE::Rc(a) | TE::Arc(a) | TE::Ref(a) | TE::Option(a) | TE::CowSlice(a) | TE::Cow(a) | TE::Set(a) | TE::Heap(a) | TE::Range(a) | TE::RangeIncl(a) | TE::Phantom(a) => vec![a],
            TE::Result(a, b) | TE::Map(a, b) => vec![a, b],
            TE::Tuple(xs) | TE::Def(_, xs) => xs.iter().collect(),
            _ => vec![],
        }
    }
    pub fn any(&self, f: &dyn Fn(&TE) -> bool) -> bool {
        f(self) || self.children().iter().any(|c| c.any(f))
    }
    pub fn depth(&self) -> usize {
        1 + self.children().iter().map(|c| c.depth()).max().unwrap_or(0)
    }
    pub fn uses_param(&self, i: u8) -> bool {
        self.any(&|t| matches!(t, TE::Param(j) if *j == i))
    }
    pub fn uses_lifetime(&self) -> bool {
        self.any(&|t| matches!(t, TE::StrA | TE::SliceA(_)))
    }
    /// does the SCALE codec implement Encode for it?
    pub fn encodable(&self) -> bool {
        !self.any(&|t| matches!(t, TE::Char) || matches!(t, TE::Tuple(xs) if xs.len() > 18))
    }
    pub fn uses_bitvec(&self) -> bool {
        self.any(&|t| matches!(t, TE::BitVec(..)))
    }
    /// is the type, after transparent wrappers, a PhantomData (erased as a member)?
    pub fn is_phantom(&self) -> bool {
        match self {
            TE::Phantom(_) => true,
            TE::Box(a) | TE::Rc(a) | TE::Arc(a) | TE::Ref(a) => a.is_phantom(),
            _ => false,
        }
    }
    /// substitute type parameters and Self
    pub fn subst(&self, args: &[TE], self_ty: &TE) -> TE {
        match self {
            TE::Param(i) => args.get(*i as usize).cloned().unwrap_or(TE::Unit),
            TE::SelfTy => self_ty.clone(),
            TE::StrA => TE::Str,
            TE::SliceA(a) => TE::Ref(Box::new(TE::SliceStatic(Box::new(a.subst(args, self_ty))))),
            other => other.map_children(&|c| c.subst(args, self_ty)),
        }
    }
    pub fn map_children(&self, f: &dyn Fn(&TE) -> TE) -> TE {
        let b = |x: &TE| Box::new(f(x));
        match self {
            TE::SliceA(a) => TE::SliceA(b(a)),
            TE::Array(a, n) => TE::Array(b(a), *n),
            TE::Vec(a) => TE::Vec(b(a)),
            TE::VecDeque(a) => TE::VecDeque(b(a)),
            TE::Box(a) => TE::Box(b(a)),
            TE::Rc(a) => TE::Rc(b(a)),
            TE::Arc(a) => TE::Arc(b(a)),
            TE::Ref(a) => TE::Ref(b(a)),
            TE::Option(a) => TE::Option(b(a)),
            TE::CowSlice(a) => TE::CowSlice(b(a)),
            TE::Cow(a) => TE::Cow(b(a)),
            TE::Set(a) => TE::Set(b(a)),
            TE::Heap(a) => TE::Heap(b(a)),
            TE::Range(a) => TE::Range(b(a)),
            TE::RangeIncl(a) => TE::RangeIncl(b(a)),
            TE::Phantom(a) => TE::Phantom(b(a)),
            TE::Result(a, c) => TE::Result(b(a), b(c)),
            TE::Map(a, c) => TE::Map(b(a), b(c)),
            TE::Tuple(xs) => TE::Tuple(xs.iter().map(f).collect()),
            TE::Def(i, xs) => TE::Def(*i, xs.iter().map(f).collect()),
            TE::SliceStatic(a) => TE::SliceStatic(b(a)),
            other => other.clone(),
        }
    }
}

/// printing context: names of the definitions (for `Def`) and of the enclosing one (for `SelfTy`)
pub struct PCtx<'a> {
    pub defs: &'a [Def],
    pub self_name: Option<String>,
    pub self_params: Vec<String>,
    pub lifetime: &'a str,
    /// does the enclosing definition declare a lifetime parameter (printed as `lifetime`)?
    pub self_has_lifetime: bool,
    /// write std types with a leading path (`::std::vec::Vec<T>`, `core::option::Option<T>`)
    pub qualified: bool,
    /// prefix for references to definitions ("" inside the program root, "super::" style handled by `use`)
    pub spaced: bool,
}

pub fn def_path(defs: &[Def], i: usize) -> String {
    let d = &defs[i];
    format!("{}::{}", d.module_path().join("::"), d.name)
}

impl TE {
    pub fn rust(&self, c: &PCtx) -> String {
        let g = |name: &str, args: Vec<String>| -> String {
            if c.spaced {
                format!("{} < {} >", name, args.join(" , "))
            } else {
                format!("{}<{}>", name, args.join(", "))
            }
        };
        match self {
            TE::Bool => "bool".into(),
            TE::U(b) => format!("u{b}"),
            TE::I(b) => format!("i{b}"),
            TE::Char => "char".into(),
            TE::Str => "&'static str".into(),
            TE::StrA => format!("&{} str", c.lifetime),
            TE::SliceA(a) => format!("&{} [{}]", c.lifetime, a.rust(c)),
            TE::SliceStatic(a) => format!("[{}]", a.rust(c)),
            TE::String => "String".into(),
            TE::Unit => "()".into(),
            TE::Array(a, n) => format!("[{}; {}]", a.rust(c), n),
            TE::Tuple(xs) => {
                if xs.len() == 1 {
                    format!("({},)", xs[0].rust(c))
                } else {
                    format!("({})", xs.iter().map(|x| x.rust(c)).collect::<Vec<_>>().join(", "))
                }
            }
            TE::Vec(a) => g(if c.qualified { "::std::vec::Vec" } else { "Vec" }, vec![a.rust(c)]),
            TE::VecDeque(a) => g("VecDeque", vec![a.rust(c)]),
            TE::Box(a) => g(if c.qualified { "std::boxed::Box" } else { "Box" }, vec![a.rust(c)]),
            TE::Rc(a) => g("Rc", vec![a.rust(c)]),
            TE::Arc(a) => g("Arc", vec![a.rust(c)]),
            TE::Ref(a) => format!("&'static {}", a.rust(c)),
            TE::Option(a) => g(if c.qualified { "core::option::Option" } else { "Option" }, vec![a.rust(c)]),
            TE::Result(a, b) => g("Result", vec![a.rust(c), b.rust(c)]),
            TE::CowStr => g("Cow", vec!["'static".into(), "str".into()]),
            TE::CowSlice(a) => g("Cow", vec!["'static".into(), format!("[{}]", a.rust(c))]),
            TE::Cow(a) => g("Cow", vec!["'static".into(), a.rust(c)]),
            TE::Map(a, b) => g(if c.qualified { "::std::collections::BTreeMap" } else { "BTreeMap" }, vec![a.rust(c), b.rust(c)]),
            TE::Set(a) => g("BTreeSet", vec![a.rust(c)]),
            TE::Heap(a) => g("BinaryHeap", vec![a.rust(c)]),
            TE::Compact(0) => g("Compact", vec!["()".into()]),
            TE::Compact(b) => g("Compact", vec![format!("u{b}")]),
            TE::Range(a) => g("Range", vec![a.rust(c)]),
            TE::RangeIncl(a) => g("RangeInclusive", vec![a.rust(c)]),
            TE::NonZeroU(b) => format!("NonZeroU{b}"),
            TE::NonZeroI(b) => format!("NonZeroI{b}"),
            TE::Duration => "Duration".into(),
            TE::Phantom(a) => g("PhantomData", vec![a.rust(c)]),
            TE::BitVec(s, msb) => g("BitVec", vec![format!("u{s}"), if *msb { "Msb0".into() } else { "Lsb0".into() }]),
            TE::CW => "CW".into(),
            TE::Def(i, args) => {
                let d = &c.defs[*i];
                let mut a: Vec<String> = vec![];
                if d.lifetime {
                    a.push("'static".into());
                }
                a.extend(args.iter().map(|x| x.rust(c)));
                a.extend(d.const_params.iter().map(|(_, v)| v.to_string()));
                let p = format!("crate::{}", def_path(c.defs, *i));
                if a.is_empty() {
                    p
                } else {
                    g(&p, a)
                }
            }
            TE::Param(i) => c.self_params.get(*i as usize).cloned().unwrap_or_else(|| PARAM_NAMES[*i as usize % 4].to_string()),
            TE::SelfTy => {
                let name = c.self_name.clone().unwrap_or_else(|| "Self".into());
                let mut a: Vec<String> = vec![];
                if c.self_has_lifetime {
                    a.push(c.lifetime.to_string());
                }
                a.extend(c.self_params.iter().cloned());
                if a.is_empty() {
                    name
                } else {
                    g(&name, a)
                }
            }
        }
    }
}

// ------------------------------------------------------------------------------- definitions

#[derive(Clone, Debug, PartialEq, Eq, Hash, Serialize, Deserialize)]
pub enum DocLine {
    /// `/// text` (text printed right after the three slashes)
    Slash(String),
    /// `#[doc = "text"]`
    Attr(String),
    /// `#[doc(hidden)]`-like distractor that is not a doc string
    Distractor(u8),
}

#[derive(Clone, Debug, PartialEq, Eq, Hash, Serialize, Deserialize, Default)]
pub struct FieldAttr {
    pub skip: bool,
    pub compact: bool,
    /// `#[codec(encoded_as = "<uN as HasCompact>::Type")]`
    pub encoded_as: bool,
    pub rename: Option<String>,
}

#[derive(Clone, Debug, PartialEq, Eq, Hash, Serialize, Deserialize)]
pub struct FieldD {
    pub name: Option<String>,
    pub ty: TE,
    pub attr: FieldAttr,
    pub docs: Vec<DocLine>,
    /// print the type with extra whitespace
    pub spaced: bool,
    /// print std types with their full path
    #[serde(default)]
    pub qualified: bool,
}

#[derive(Clone, Copy, Debug, PartialEq, Eq, Hash, Serialize, Deserialize)]
pub enum Shape {
    Named,
    Unnamed,
    Unit,
}

#[derive(Clone, Debug, PartialEq, Eq, Hash, Serialize, Deserialize)]
pub struct VariantD {
    pub name: String,
    pub shape: Shape,
    pub fields: Vec<FieldD>,
    pub index: Option<u8>,
    pub skip: bool,
    /// source text of an explicit discriminant and its value
    pub discriminant: Option<(String, u8)>,
    pub docs: Vec<DocLine>,
    /// spelling of the `#[codec(index = ..)]` literal: decimal, hex, suffixed, binary, underscored
    #[serde(default)]
    pub index_style: u8,
}

/// see Program::flat_elems
pub const MAX_VALUE_ELEMS: u64 = 300_000;

#[derive(Clone, Debug, PartialEq, Eq, Hash, Serialize, Deserialize)]
pub enum Body {
    Struct(Shape, Vec<FieldD>),
    Enum(Vec<VariantD>),
}

#[derive(Clone, Debug, PartialEq, Eq, Hash, Serialize, Deserialize, Default)]
pub struct ItemAttr {
    /// indices of type parameters named in skip_type_params
    pub skip_params: Vec<u8>,
    /// None = attribute absent; Some("default"|"always"|"never"|case variants)
    pub capture_docs: Option<String>,
    pub replace: Vec<(String, String)>,
    /// 0 = none, 1 = `crate = ::scale_info`, 2 = `crate = si_alias`
    pub crate_attr: u8,
    /// spread the scale_info attributes over several #[scale_info(..)] attributes
    pub split_attrs: bool,
}

#[derive(Clone, Debug, PartialEq, Eq, Hash, Serialize, Deserialize)]
pub struct Def {
    pub name: String,
    /// nested modules below the program root (at least one)
    pub modules: Vec<String>,
    pub n_params: u8,
    pub lifetime: bool,
    pub const_params: Vec<(String, u8)>,
    pub body: Body,
    pub attr: ItemAttr,
    pub docs: Vec<DocLine>,
    /// derive Encode too (C03) — otherwise TypeInfo only
    pub encode: bool,
    /// declared through a macro_rules! with a `$ty:ty` field type (first field)
    pub via_macro: bool,
    /// `#[repr(<int>)]` on an enum (allows explicit discriminants on variants with fields)
    #[serde(default)]
    pub repr: Option<String>,
}

impl Def {
    pub fn module_path(&self) -> Vec<String> {
        self.modules.clone()
    }
    pub fn params(&self) -> Vec<String> {
        (0..self.n_params).map(|i| PARAM_NAMES[i as usize % 4].to_string()).collect()
    }
    pub fn all_fields(&self) -> Vec<&FieldD> {
        match &self.body {
            Body::Struct(_, fs) => fs.iter().collect(),
            Body::Enum(vs) => vs.iter().flat_map(|v| v.fields.iter()).collect(),
        }
    }
    pub fn capture_mode(&self) -> &str {
        match self.attr.capture_docs.as_deref().map(|s| s.to_ascii_lowercase()) {
            Some(s) if s == "always" => "always",
            Some(s) if s == "never" => "never",
            _ => "default",
        }
    }
}

/// effective SCALE index of each non-skipped variant: codec(index) > discriminant > position
/// among the non-skipped variants (the rule of the codec derive 3.7.x)
pub fn effective_indices(vs: &[VariantD]) -> Vec<Option<u8>> {
    let mut pos = 0u32;
    vs.iter()
        .map(|v| {
            if v.skip {
                None
            } else {
                let i = v.index.map(|x| x as u32).or(v.discriminant.as_ref().map(|d| d.1 as u32)).unwrap_or(pos);
                pos += 1;
                Some(i.min(255) as u8)
            }
        })
        .collect()
}

pub fn rust_str(s: &str) -> String {
    // a Rust string literal
    let mut out = String::from("\"");
    for c in s.chars() {
        match c {
            '"' => out.push_str("\\\""),
            '\\' => out.push_str("\\\\"),
            '\n' => out.push_str("\\n"),
            '\r' => out.push_str("\\r"),
            '\t' => out.push_str("\\t"),
            '\0' => out.push_str("\\0"),
            c if (c as u32) < 0x20 || c == '\u{7f}' => out.push_str(&format!("\\u{{{:x}}}", c as u32)),
            c => out.push(c),
        }
    }
    out.push('"');
    out
}

fn print_docs(docs: &[DocLine], indent: &str, out: &mut String) {
    for d in docs {
        match d {
            DocLine::Slash(t) => out.push_str(&format!("{indent}///{t}\n")),
            DocLine::Attr(t) => out.push_str(&format!("{indent}#[doc = {}]\n", rust_str(t))),
            DocLine::Distractor(k) => out.push_str(&format!(
                "{indent}{}\n",
                match k % 3 {
                    0 => "#[doc(hidden)]",
                    1 => "#[doc(alias = \"other_name\")]",
                    _ => "#[allow(dead_code)]",
                }
            )),
        }
    }
}

/// the doc strings the derive is documented to capture: one leading space removed
pub fn expected_doc_lines(docs: &[DocLine]) -> Vec<String> {
    docs.iter()
        .filter_map(|d| match d {
            DocLine::Slash(t) | DocLine::Attr(t) => Some(t.strip_prefix(' ').unwrap_or(t).to_string()),
            DocLine::Distractor(_) => None,
        })
        .collect()
}

fn field_attrs(f: &FieldD, out: &mut String, indent: &str) {
    if f.attr.skip {
        out.push_str(&format!("{indent}#[codec(skip)]\n"));
    }
    if f.attr.compact {
        out.push_str(&format!("{indent}#[codec(compact)]\n"));
    }
    if f.attr.encoded_as {
        if let TE::U(b) = &f.ty {
            out.push_str(&format!("{indent}#[codec(encoded_as = \"<u{b} as parity_scale_codec::HasCompact>::Type\")]\n"));
        }
    }
    if let Some(r) = &f.attr.rename {
        out.push_str(&format!("{indent}#[scale_info(rename = {})]\n", rust_str(r)));
    }
}

fn print_fields(shape: Shape, fs: &[FieldD], c: &PCtx, indent: &str, is_struct: bool, out: &mut String) {
    match shape {
        Shape::Unit => {
            if is_struct {
                out.push_str(";\n")
            }
        }
        Shape::Named => {
            out.push_str(" {\n");
            for f in fs {
                print_docs(&f.docs, &format!("{indent}    "), out);
                field_attrs(f, out, &format!("{indent}    "));
                let cc = PCtx { defs: c.defs, self_name: c.self_name.clone(), self_params: c.self_params.clone(), lifetime: c.lifetime, self_has_lifetime: c.self_has_lifetime, qualified: f.qualified, spaced: f.spaced };
                out.push_str(&format!("{indent}    {}{}: {},\n", if is_struct { "pub " } else { "" }, f.name.as_deref().unwrap_or("f"), f.ty.rust(&cc)));
            }
            out.push_str(&format!("{indent}}}"));
            if is_struct {
                out.push('\n')
            }
        }
        Shape::Unnamed => {
            out.push_str("(\n");
            for f in fs {
                print_docs(&f.docs, &format!("{indent}    "), out);
                field_attrs(f, out, &format!("{indent}    "));
                let cc = PCtx { defs: c.defs, self_name: c.self_name.clone(), self_params: c.self_params.clone(), lifetime: c.lifetime, self_has_lifetime: c.self_has_lifetime, qualified: f.qualified, spaced: f.spaced };
                out.push_str(&format!("{indent}    {}{},\n", if is_struct { "pub " } else { "" }, f.ty.rust(&cc)));
            }
            out.push_str(&format!("{indent})"));
            if is_struct {
                out.push_str(";\n")
            }
        }
    }
}

pub fn generics_decl(d: &Def) -> String {
    let mut g: Vec<String> = vec![];
    if d.lifetime {
        g.push("'a".into());
    }
    g.extend(d.params());
    g.extend(d.const_params.iter().map(|(n, _)| format!("const {n}: usize")));
    if g.is_empty() {
        String::new()
    } else {
        format!("<{}>", g.join(", "))
    }
}

pub fn print_def(defs: &[Def], i: usize) -> String {
    print_def_opt(defs, i, true)
}

/// `with_typeinfo = false` prints the twin used to judge compile failures: the same definition
/// without the TypeInfo derive, its helper attributes and the Gen impl
pub fn print_def_opt(defs: &[Def], i: usize, with_typeinfo: bool) -> String {
    let d = &defs[i];
    let mut out = String::new();
    let depth = d.modules.len();
    for (k, m) in d.modules.iter().enumerate() {
        out.push_str(&format!("{}pub mod {} {{\n", "    ".repeat(k), m));
        out.push_str(&format!("{}    #[allow(unused_imports)] use crate::prelude::*;\n", "    ".repeat(k)));
    }
    let ind = "    ".repeat(depth);
    let c = PCtx { defs, self_name: Some(d.name.clone()), self_params: d.params(), lifetime: if d.lifetime { "'a" } else { "'static" }, self_has_lifetime: d.lifetime, qualified: false, spaced: false };
    let mut item = String::new();
    print_docs(&d.docs, &ind, &mut item);
    let mut derives = if with_typeinfo { vec!["Clone", "TypeInfo"] } else { vec!["Clone"] };
    if d.encode {
        derives.push("Encode");
    }
    item.push_str(&format!("{ind}#[derive({})]\n", derives.join(", ")));
    if let Some(r) = &d.repr {
        item.push_str(&format!("{ind}#[repr({r})]\n"));
    }
    // scale_info attributes
    let mut parts: Vec<String> = vec![];
    if !d.attr.skip_params.is_empty() {
        parts.push(format!("skip_type_params({})", d.attr.skip_params.iter().map(|i| PARAM_NAMES[*i as usize % 4]).collect::<Vec<_>>().join(", ")));
    }
    if let Some(cd) = &d.attr.capture_docs {
        parts.push(format!("capture_docs = {}", rust_str(cd)));
    }
    for (s, r) in &d.attr.replace {
        parts.push(format!("replace_segment({}, {})", rust_str(s), rust_str(r)));
    }
    match d.attr.crate_attr {
        1 => parts.push("crate = ::scale_info".into()),
        2 => parts.push("crate = si_alias".into()),
        _ => {}
    }
    if !parts.is_empty() && with_typeinfo {
        if d.attr.split_attrs {
            for p in &parts {
                item.push_str(&format!("{ind}#[scale_info({p})]\n"));
            }
        } else {
            item.push_str(&format!("{ind}#[scale_info({})]\n", parts.join(", ")));
        }
    }
    let gens = generics_decl(d);
    match &d.body {
        Body::Struct(shape, fs) => {
            item.push_str(&format!("{ind}pub struct {}{}", d.name, gens));
            print_fields(*shape, fs, &c, &ind, true, &mut item);
        }
        Body::Enum(vs) => {
            item.push_str(&format!("{ind}pub enum {}{} {{\n", d.name, gens));
            for v in vs {
                print_docs(&v.docs, &format!("{ind}    "), &mut item);
                // the two codec attributes of a variant in either order
                let skip_first = v.index_style & 0x40 == 0;
                if v.skip && skip_first {
                    item.push_str(&format!("{ind}    #[codec(skip)]\n"));
                }
                if let Some(ix) = v.index {
                    let lit = match v.index_style % 6 {
                        1 => format!("0x{ix:02x}"),
                        2 => format!("{ix}u8"),
                        3 => format!("0b{ix:b}"),
                        4 => format!("{}_{}", ix / 10, ix % 10),
                        _ => format!("{ix}"),
                    };
                    item.push_str(&format!("{ind}    #[codec(index = {lit})]\n"));
                }
                if v.skip && !skip_first {
                    item.push_str(&format!("{ind}    #[codec(skip)]\n"));
                }
                item.push_str(&format!("{ind}    {}", v.name));
                print_fields(v.shape, &v.fields, &c, &format!("{ind}    "), false, &mut item);
                if let Some((src, _)) = &v.discriminant {
                    item.push_str(&format!(" = {src}"));
                }
                item.push_str(",\n");
            }
            item.push_str(&format!("{ind}}}\n"));
        }
    }
    if d.via_macro {
        // the whole item goes through a macro_rules! whose `$ty:ty` fragment supplies the type of
        // the first field (written `MACRO_TY` in the item text)
        let first_ty = match &d.body {
            Body::Struct(_, fs) if !fs.is_empty() => fs[0].ty.rust(&c),
            _ => "u8".into(),
        };
        let body = item.replacen(&format!(": {},", first_ty), ": $ty,", 1);
        if body != item {
            out.push_str(&format!("{ind}macro_rules! mk_{} {{ ($ty:ty) => {{\n{}{ind}}} }}\n{ind}mk_{}!({});\n", d.name.trim_start_matches("r#"), body, d.name.trim_start_matches("r#"), first_ty));
        } else {
            out.push_str(&item);
        }
    } else {
        out.push_str(&item);
    }
    if !with_typeinfo {
        // strip the derive's helper attributes on members
        out = out.lines().filter(|l| !l.trim_start().starts_with("#[scale_info(")).collect::<Vec<_>>().join("\n");
        out.push('\n');
    }
    // impl Gen (value generation + expected decoded value)
    if d.encode && with_typeinfo {
        out.push_str(&print_gen_impl(defs, i, &ind));
    }
    for k in (0..depth).rev() {
        out.push_str(&format!("{}}}\n", "    ".repeat(k)));
    }
    out
}

/// name under which the metadata must list the member
pub fn meta_field_name(f: &FieldD) -> Option<String> {
    f.attr.rename.clone().or(f.name.clone())
}

fn model_fields_expr(fs: &[FieldD], shape: Shape, access: &dyn Fn(usize, &FieldD) -> String) -> String {
    let mut items = vec![];
    for (k, f) in fs.iter().enumerate() {
        if f.attr.skip || f.ty.is_phantom() {
            continue;
        }
        let name = match shape {
            Shape::Named => format!("Some({}.to_string())", rust_str(&meta_field_name(f).unwrap_or_default())),
            _ => "None".into(),
        };
        items.push(format!("({}, Gen::model({}))", name, access(k, f)));
    }
    format!("vec![{}]", items.join(", "))
}


fn print_gen_impl(defs: &[Def], i: usize, ind: &str) -> String {
    let d = &defs[i];
    let mut g: Vec<String> = vec![];
    let mut a: Vec<String> = vec![];
    if d.lifetime {
        a.push("'static".into());
    }
    for p in d.params() {
        g.push(format!("{p}: Gen + Clone + 'static"));
        a.push(p);
    }
    for (n, _) in &d.const_params {
        g.push(format!("const {n}: usize"));
        a.push(n.clone());
    }
    let gens = if g.is_empty() { String::new() } else { format!("<{}>", g.join(", ")) };
    let args = if a.is_empty() { String::new() } else { format!("<{}>", a.join(", ")) };
    let mut out = format!("{ind}impl{gens} Gen for {}{args} {{\n", d.name);
    let fuel = "fuel.saturating_sub(1)";
    let gen_field = |f: &FieldD| -> String {
        if f.ty == TE::SelfTy || f.ty.any(&|t| matches!(t, TE::SelfTy)) {
            format!("Gen::gen(e, {fuel})")
        } else {
            format!("Gen::gen(e, {fuel})")
        }
    };
    let construct = |path: &str, shape: Shape, fs: &[FieldD]| -> String {
        match shape {
            Shape::Unit => path.to_string(),
            Shape::Named => format!("{path} {{ {} }}", fs.iter().map(|f| format!("{}: {}", f.name.as_deref().unwrap_or("f"), gen_field(f))).collect::<Vec<_>>().join(", ")),
            Shape::Unnamed => format!("{path}({})", fs.iter().map(gen_field).collect::<Vec<_>>().join(", ")),
        }
    };
    out.push_str(&format!("{ind}    #[allow(unused_variables)]\n{ind}    fn gen(e: &mut Entropy, fuel: u32) -> Self {{\n"));
    match &d.body {
        Body::Struct(shape, fs) => out.push_str(&format!("{ind}        {}\n", construct(&d.name, *shape, fs))),
        Body::Enum(vs) => {
            let live: Vec<&VariantD> = vs.iter().filter(|v| !v.skip).collect();
            // with no fuel left prefer the first variant without self reference
            let base = live.iter().position(|v| !v.fields.iter().any(|f| f.ty.any(&|t| matches!(t, TE::SelfTy)))).unwrap_or(0);
            out.push_str(&format!("{ind}        let k = if fuel == 0 {{ {base} }} else {{ e.below({}) }};\n{ind}        match k {{\n", live.len()));
            for (k, v) in live.iter().enumerate() {
                out.push_str(&format!("{ind}            {} => {},\n", if k + 1 == live.len() { "_".to_string() } else { k.to_string() }, construct(&format!("{}::{}", d.name, v.name), v.shape, &v.fields)));
            }
            out.push_str(&format!("{ind}        }}\n"));
        }
    }
    out.push_str(&format!("{ind}    }}\n{ind}    #[allow(unused_variables)]\n{ind}    fn model(&self) -> Val {{\n"));
    match &d.body {
        Body::Struct(shape, fs) => {
            let acc = |k: usize, f: &FieldD| match shape {
                Shape::Named => format!("&self.{}", f.name.as_deref().unwrap_or("f")),
                _ => format!("&self.{k}"),
            };
            out.push_str(&format!("{ind}        vsupport::comp({})\n", model_fields_expr(fs, *shape, &acc)));
        }
        Body::Enum(vs) => {
            out.push_str(&format!("{ind}        match self {{\n"));
            for v in vs {
                let pat = match v.shape {
                    Shape::Unit => format!("{}::{}", d.name, v.name),
                    Shape::Named => format!("{}::{} {{ {} }}", d.name, v.name, v.fields.iter().enumerate().map(|(k, f)| format!("{}: b{k}", f.name.as_deref().unwrap_or("f"))).collect::<Vec<_>>().join(", ")),
                    Shape::Unnamed => format!("{}::{}({})", d.name, v.name, (0..v.fields.len()).map(|k| format!("b{k}")).collect::<Vec<_>>().join(", ")),
                };
                if v.skip {
                    out.push_str(&format!("{ind}            {pat} => unreachable!(),\n"));
                } else {
                    let acc = |k: usize, _f: &FieldD| format!("b{k}");
                    out.push_str(&format!("{ind}            {pat} => vsupport::var({}, {}),\n", rust_str(&v.name), model_fields_expr(&v.fields, v.shape, &acc)));
                }
            }
            out.push_str(&format!("{ind}        }}\n"));
        }
    }
    out.push_str(&format!("{ind}    }}\n{ind}}}\n"));
    out
}

// ----------------------------------------------------------------------------- the program

#[derive(Clone, Debug, PartialEq, Eq, Hash, Serialize, Deserialize)]
pub struct Program {
    pub defs: Vec<Def>,
    /// closed type expressions to register, describe and (when encodable) generate values for
    pub roots: Vec<TE>,
}

pub const PRELUDE: &str = r#"#![recursion_limit = "1024"]
#![allow(dead_code, unused_imports, unused_variables, non_camel_case_types, non_snake_case, unused_parens, unreachable_patterns)]
pub mod prelude {
    pub use parity_scale_codec::{Compact, CompactAs, Decode, Encode};
    pub use scale_info::{meta_type, MetaType, PortableRegistry, Registry, TypeInfo};
    pub use vsupport::{Entropy, Gen, Val};
    pub use ::scale_info as si_alias;
    pub use std::borrow::Cow;
    pub use std::collections::{BTreeMap, BTreeSet, BinaryHeap, VecDeque};
    pub use std::marker::PhantomData;
    pub use std::num::{NonZeroI128, NonZeroI16, NonZeroI32, NonZeroI64, NonZeroI8, NonZeroU128, NonZeroU16, NonZeroU32, NonZeroU64, NonZeroU8};
    pub use std::ops::{Range, RangeInclusive};
    pub use std::rc::Rc;
    pub use std::sync::Arc;
    pub use std::time::Duration;
    BITVEC_USE
    /// a CompactAs newtype, for `#[codec(compact)]` members of struct type
    #[derive(Clone, Debug, PartialEq, Eq, PartialOrd, Ord, Encode, Decode, CompactAs, TypeInfo)]
    pub struct CW(pub u32);
    impl Gen for CW {
        fn gen(e: &mut Entropy, fuel: u32) -> Self { CW(Gen::gen(e, fuel)) }
        fn model(&self) -> Val { Val::Comp(vec![(None, Gen::model(&self.0))]) }
    }
}
use prelude::*;
"#;

impl Program {
    pub fn uses_bitvec(&self) -> bool {
        self.roots.iter().any(|r| r.uses_bitvec()) || self.defs.iter().any(|d| d.all_fields().iter().any(|f| f.ty.uses_bitvec()))
    }

    pub fn root_ctx(&self) -> PCtx<'_> {
        PCtx { defs: &self.defs, self_name: None, self_params: vec![], lifetime: "'static", self_has_lifetime: false, qualified: false, spaced: false }
    }

    /// the complete program text. `values`: also generate values (roots must then be encodable)
    pub fn source(&self, bitvec: bool) -> String {
        let mut s = PRELUDE.replace("BITVEC_USE", if bitvec { "pub use bitvec::{order::{Lsb0, Msb0}, vec::BitVec};" } else { "" });
        for i in 0..self.defs.len() {
            s.push_str(&print_def(&self.defs, i));
        }
        let c = self.root_ctx();
        s.push_str("fn main() {\n    // values of nested arrays are built on the stack in an unoptimised build\n    std::thread::Builder::new().stack_size(512 << 20).spawn(real_main).unwrap().join().unwrap_or_else(|_| std::process::exit(101));\n}\nfn real_main() {\n    let ents = vsupport::read_entropies();\n    let mut reg = Registry::new();\n");
        for (k, r) in self.roots.iter().enumerate() {
            s.push_str(&format!("    let id{k} = reg.register_type(&meta_type::<{}>()).id;\n", r.rust(&c)));
        }
        s.push_str("    let portable: PortableRegistry = reg.into();\n    println!(\"REG {}\", vsupport::hex(&portable.encode()));\n");
        // the portable registry against the compile-time definitions, through every reference
        let roots_list: Vec<String> = self.roots.iter().enumerate().map(|(k, r)| format!("(meta_type::<{}>(), id{k})", r.rust(&c))).collect();
        s.push_str(&format!("    match vsupport::sim(&portable, &[{}]) {{ Ok(n) => println!(\"SIM ok {{}}\", n), Err(e) => println!(\"SIM err {{}}\", e.replace('\\n', \" \")) }}\n", roots_list.join(", ")));
        for (k, r) in self.roots.iter().enumerate() {
            let ty = r.rust(&c);
            s.push_str(&format!("    println!(\"TYPE {k} {{}}\", id{k});\n"));
            s.push_str(&format!("    {{ let ti = <{ty} as TypeInfo>::type_info(); println!(\"INFO {k} {{}}\", vsupport::dump_type(&ti));\n"));
            // in-place comparison of member and parameter MetaTypes with the declared types
            if let Some((members, params)) = self.expected_metatypes(r) {
                s.push_str(&format!("      let want_m: Vec<MetaType> = vec![{}];\n", members.join(", ")));
                s.push_str("      let got_m = vsupport::member_types(&ti);\n");
                s.push_str(&format!("      println!(\"MEMBERS {k} {{}} {{}} {{}}\", got_m == want_m, got_m.len(), want_m.len());\n"));
                s.push_str(&format!("      let want_p: Vec<Option<MetaType>> = vec![{}];\n", params.join(", ")));
                s.push_str(&format!("      println!(\"PARAMS {k} {{}}\", vsupport::param_types(&ti) == want_p);\n"));
            }
            s.push_str("    }\n");
            if r.encodable() && self.root_encodes(r) {
                s.push_str(&format!("    for en in &ents {{ let mut e = Entropy::new(en); let v: {ty} = Gen::gen(&mut e, 3); println!(\"VAL {k} {{}} {{}}\", vsupport::hex(&v.encode()), Gen::model(&v).to_json()); }}\n"));
            }
        }
        s.push_str("}\n");
        s
    }

    /// the twin program: every definition without the TypeInfo derive (must compile whenever the
    /// generator emitted something the codec derive accepts)
    pub fn source_twin(&self, bitvec: bool) -> String {
        let mut s = PRELUDE.replace("BITVEC_USE", if bitvec { "pub use bitvec::{order::{Lsb0, Msb0}, vec::BitVec};" } else { "" });
        for i in 0..self.defs.len() {
            s.push_str(&print_def_opt(&self.defs, i, false));
        }
        s.push_str("fn main() {}\n");
        s
    }

    /// can values of this root be generated and encoded (all definitions involved derive Encode)?
    pub fn root_encodes(&self, r: &TE) -> bool {
        !r.any(&|t| match t {
            TE::Def(i, _) => !self.def_encodes(*i),
            _ => false,
        }) && self.flat_elems(r, 0) <= MAX_VALUE_ELEMS
    }

    /// upper estimate of how many scalar elements a generated value of the type holds inline
    /// (arrays multiply); values are only generated below MAX_VALUE_ELEMS so that a case is
    /// never a multi-megabyte stack object printed as JSON. Types stay unrestricted.
    pub fn flat_elems(&self, t: &TE, depth: usize) -> u64 {
        if depth > 6 {
            return 1;
        }
        let sum = |xs: Vec<&TE>| -> u64 { xs.iter().map(|x| self.flat_elems(x, depth)).fold(0u64, |a, b| a.saturating_add(b)).max(1) };
        match t {
            TE::Array(a, n) => (*n as u64).saturating_mul(self.flat_elems(a, depth).max(1)),
            TE::Def(i, args) => {
                let d = &self.defs[*i];
                let self_ty = t.clone();
                d.all_fields().iter().map(|f| self.flat_elems(&f.ty.subst(args, &self_ty), depth + 1)).fold(0u64, |a, b| a.saturating_add(b)).max(1)
            }
            // heap containers hold up to a handful of generated elements
            TE::Vec(_) | TE::VecDeque(_) | TE::Set(_) | TE::Heap(_) | TE::Map(..) | TE::CowSlice(_) | TE::SliceA(_) | TE::SliceStatic(_) => sum(t.children()).saturating_mul(4),
            _ => sum(t.children()),
        }
    }

    fn def_encodes(&self, i: usize) -> bool {
        let d = &self.defs[i];
        d.encode
            && d.all_fields().iter().all(|f| {
                f.ty.encodable()
                    && !f.ty.any(&|t| match t {
                        TE::Def(j, _) => *j != i && !self.def_encodes(*j),
                        _ => false,
                    })
            })
    }

    /// for a root that is a definition: the declared member types and parameter arguments as
    /// `meta_type::<..>()` source expressions (None for anything else)
    pub fn expected_metatypes(&self, r: &TE) -> Option<(Vec<String>, Vec<String>)> {
        let TE::Def(i, args) = r else { return None };
        let d = &self.defs[*i];
        let c = self.root_ctx();
        let mut members = vec![];
        for f in d.all_fields_in_live_variants() {
            let t = f.ty.subst(args, r);
            // a member whose type is PhantomData *in this instantiation* is erased
            if f.attr.skip || t.is_phantom() {
                continue;
            }
            let txt = t.rust(&c);
            if f.attr.compact {
                members.push(format!("meta_type::<Compact<{txt}>>()"));
            } else {
                members.push(format!("meta_type::<{txt}>()"));
            }
        }
        let params = (0..d.n_params)
            .map(|p| {
                if d.attr.skip_params.contains(&p) {
                    "None".to_string()
                } else {
                    format!("Some(meta_type::<{}>())", args[p as usize].rust(&c))
                }
            })
            .collect();
        Some((members, params))
    }
}

impl Def {
    /// fields of a struct, or of the non-skipped variants of an enum, in declaration order
    pub fn all_fields_in_live_variants(&self) -> Vec<&FieldD> {
        match &self.body {
            Body::Struct(_, fs) => fs.iter().collect(),
            Body::Enum(vs) => vs.iter().filter(|v| !v.skip).flat_map(|v| v.fields.iter()).collect(),
        }
    }
}

// ------------------------------------------------------------- expected compile-time description

#[derive(Clone, Debug, PartialEq, Eq, Serialize)]
pub struct ExpField {
    pub name: Option<String>,
    /// declared type text with all whitespace removed and lifetimes shown as 'static
    pub type_name_squashed: String,
    pub docs: Vec<String>,
}

#[derive(Clone, Debug, PartialEq, Eq, Serialize)]
pub struct ExpVariant {
    pub name: String,
    pub index: u8,
    pub docs: Vec<String>,
    pub fields: Vec<ExpField>,
}

#[derive(Clone, Debug, PartialEq, Eq, Serialize)]
pub struct Expect {
    pub path: Vec<String>,
    pub params: Vec<(String, bool)>,
    pub docs: Vec<String>,
    pub kind: String,
    pub fields: Vec<ExpField>,
    pub variants: Vec<ExpVariant>,
}

pub fn squash(s: &str) -> String {
    s.chars().filter(|c| !c.is_whitespace()).collect()
}

pub fn expect_for(defs: &[Def], i: usize, args: &[TE], docs_feature: bool) -> Expect {
    let d = &defs[i];
    let self_ty = TE::Def(i, args.to_vec());
    let capture = match d.capture_mode() {
        "always" => true,
        "never" => false,
        _ => docs_feature,
    };
    let docs = |ds: &[DocLine]| if capture { expected_doc_lines(ds) } else { vec![] };
    let c = PCtx { defs, self_name: Some(d.name.clone()), self_params: d.params(), lifetime: "'static", self_has_lifetime: d.lifetime, qualified: false, spaced: false };
    let fields = |fs: &[FieldD], shape: Shape| -> Vec<ExpField> {
        fs.iter()
            // neither skipped nor PhantomData in this instantiation
            .filter(|f| !f.attr.skip && !f.ty.subst(args, &self_ty).is_phantom())
            .map(|f| ExpField {
                name: if shape == Shape::Named { meta_field_name(f) } else { None },
                type_name_squashed: squash(&f.ty.rust(&PCtx { defs, self_name: c.self_name.clone(), self_params: c.self_params.clone(), lifetime: "'static", self_has_lifetime: c.self_has_lifetime, qualified: f.qualified, spaced: false })),
                docs: docs(&f.docs),
            })
            .collect()
    };
    let mut path: Vec<String> = vec!["prog".into()];
    path.extend(d.modules.iter().cloned());
    path.push(d.name.clone());
    let path = path
        .into_iter()
        .map(|s| d.attr.replace.iter().find(|(k, _)| *k == s).map(|(_, v)| v.clone()).unwrap_or(s))
        .collect();
    let params = (0..d.n_params).map(|p| (PARAM_NAMES[p as usize % 4].to_string(), !d.attr.skip_params.contains(&p))).collect();
    match &d.body {
        Body::Struct(shape, fs) => Expect { path, params, docs: docs(&d.docs), kind: "composite".into(), fields: fields(fs, *shape), variants: vec![] },
        Body::Enum(vs) => {
            let idx = effective_indices(vs);
            Expect {
                path,
                params,
                docs: docs(&d.docs),
                kind: "variant".into(),
                fields: vec![],
                variants: vs
                    .iter()
                    .zip(idx)
                    .filter(|(v, _)| !v.skip)
                    .map(|(v, ix)| ExpVariant { name: v.name.clone(), index: ix.unwrap_or(0), docs: docs(&v.docs), fields: fields(&v.fields, v.shape) })
                    .collect(),
            }
        }
    }
}
