use crate::gen::DefOpts;
use crate::p_values::*;
use vcore::props::PropDef;
use vcore::runner::*;

fn c03_subs() -> Vec<Box<dyn Sub>> {
    vec![Box::new(Check {
        name: "derive_vs_encode",
        quick: 1_200,
        thorough: 30_000,
        strat: Box::new(|| prog_case(1..4, DefOpts { encode: true, bitvec: true, rich_attrs: false, encoded_as: true }, 12)),
        body: Box::new(|c: &ProgCase, obs: &mut Obs| values_body(c, obs, false)),
        guard_death: false,
        max_shrink: 96,
    })]
}

fn c04_subs() -> Vec<Box<dyn Sub>> {
    vec![
        Box::new(Check {
            name: "builtin_values",
            quick: 1_200,
            thorough: 30_000,
            strat: Box::new(|| builtin_case(true, 12)),
            body: Box::new(|c: &ProgCase, obs: &mut Obs| values_body(c, obs, true)),
            guard_death: false,
            max_shrink: 96,
        }),
        Box::new(Check {
            name: "builtin_families",
            quick: 112,
            thorough: 1_600,
            strat: Box::new(|| {
                use proptest::prelude::*;
                (0u8..crate::gen::N_FAMILIES, crate::gen::entropies(24)).prop_map(|(k, entropies)| ProgCase { prog: crate::gen::family_program(k), entropies }).boxed()
            }),
            body: Box::new(|c: &ProgCase, obs: &mut Obs| values_body(c, obs, true)),
            guard_death: false,
            max_shrink: 32,
        }),
        Box::new(Check {
            name: "builtin_shapes",
            quick: 200,
            thorough: 4_000,
            strat: Box::new(|| builtin_case(false, 2)),
            body: Box::new(|c: &ProgCase, obs: &mut Obs| values_body(c, obs, true)),
            guard_death: false,
            max_shrink: 96,
        }),
    ]
}

fn c09_subs() -> Vec<Box<dyn Sub>> {
    let o = || DefOpts { encode: true, bitvec: true, rich_attrs: true, encoded_as: false };
    vec![
        Box::new(Check {
            name: "mirror_docs_on",
            quick: 700,
            thorough: 16_000,
            strat: Box::new(move || prog_case(1..4, o(), 1)),
            body: Box::new(|c: &ProgCase, obs: &mut Obs| mirror_body(c, obs, true)),
            guard_death: false,
            max_shrink: 96,
        }),
        Box::new(Check {
            name: "mirror_docs_off",
            quick: 700,
            thorough: 16_000,
            strat: Box::new(move || prog_case(1..4, DefOpts { encode: true, bitvec: true, rich_attrs: true, encoded_as: false }, 1)),
            body: Box::new(|c: &ProgCase, obs: &mut Obs| mirror_body(c, obs, false)),
            guard_death: false,
            max_shrink: 96,
        }),
    ]
}

fn c17_prog_subs() -> Vec<Box<dyn Sub>> {
    vec![
        Box::new(Check {
            name: "phantom_erased_derive",
            quick: 500,
            thorough: 12_000,
            strat: Box::new(|| prog_case(1..4, DefOpts { encode: false, bitvec: true, rich_attrs: false, encoded_as: false }, 1)),
            body: Box::new(phantom_body),
            guard_death: false,
            max_shrink: 96,
        }),
        Box::new(Check {
            name: "builders_compile_time_docs_on",
            quick: 500,
            thorough: 10_000,
            strat: Box::new(|| crate::p_builders::btype(false)),
            body: Box::new(|t: &crate::p_builders::BType, obs: &mut Obs| crate::p_builders::builder_body(t, obs, true)),
            guard_death: false,
            max_shrink: 128,
        }),
        Box::new(Check {
            name: "builders_compile_time_docs_off",
            quick: 500,
            thorough: 10_000,
            strat: Box::new(|| crate::p_builders::btype(false)),
            body: Box::new(|t: &crate::p_builders::BType, obs: &mut Obs| crate::p_builders::builder_body(t, obs, false)),
            guard_death: false,
            max_shrink: 128,
        }),
        Box::new(Check {
            name: "builders_portable_docs_on",
            quick: 400,
            thorough: 8_000,
            strat: Box::new(|| crate::p_builders::btype(true)),
            body: Box::new(|t: &crate::p_builders::BType, obs: &mut Obs| crate::p_builders::builder_body(t, obs, true)),
            guard_death: false,
            max_shrink: 128,
        }),
        Box::new(Check {
            name: "builders_portable_docs_off",
            quick: 400,
            thorough: 8_000,
            strat: Box::new(|| crate::p_builders::btype(true)),
            body: Box::new(|t: &crate::p_builders::BType, obs: &mut Obs| crate::p_builders::builder_body(t, obs, false)),
            guard_death: false,
            max_shrink: 128,
        }),
        Box::new(Check {
            name: "phantom_erased_builtin",
            quick: 500,
            thorough: 12_000,
            strat: Box::new(|| {
                use proptest::prelude::*;
                // built-in expressions plus tuples with PhantomData at generated positions
                let elem = prop_oneof![2 => crate::gen::te(1, false, true, vec![]), 1 => crate::gen::te(0, false, false, vec![]).prop_map(|t| crate::ast::TE::Phantom(Box::new(t)))];
                (builtin_case(false, 1), proptest::collection::vec(proptest::collection::vec(elem, 1..6).prop_map(crate::ast::TE::Tuple), 0..3)).prop_map(|(mut c, tuples)| {
                    c.prog.roots.extend(tuples);
                    c
                }).boxed()
            }),
            body: Box::new(phantom_body),
            guard_death: false,
            max_shrink: 96,
        }),
    ]
}

fn c13_subs() -> Vec<Box<dyn Sub>> {
    vec![Box::new(Check {
        name: "generic_definitions",
        quick: 1_500,
        thorough: 40_000,
        strat: Box::new(crate::p_generics::gcase),
        body: Box::new(crate::p_generics::generics_body),
        guard_death: false,
        max_shrink: 160,
    }),
    Box::new(Check {
        name: "recursive_definitions_with_bounds",
        quick: 64,
        thorough: 512,
        strat: Box::new(crate::p_generics::rcase),
        body: Box::new(crate::p_generics::recursive_body),
        guard_death: false,
        max_shrink: 16,
    })]
}

fn c20_subs() -> Vec<Box<dyn Sub>> {
    vec![Box::new(Check {
        name: "negative_programs",
        quick: 2_000,
        thorough: 40_000,
        strat: Box::new(crate::p_negative::ncase),
        body: Box::new(crate::p_negative::negative_body),
        guard_death: false,
        max_shrink: 160,
    })]
}

/// C15 only: in about half of the programs, definitions with replace_segment rules get a further
/// rule for a search key they already have (at the end or at the front). Which of two rules for
/// one key applies is left open by the statements - C09 and C18 therefore never generate this -
/// but whatever the answer is, it must be the same answer under every feature set.
fn c15_duplicate_search_keys(p: &mut crate::ast::Program, dup: u8) {
    if dup % 2 == 0 {
        return;
    }
    for (k, d) in p.defs.iter_mut().enumerate() {
        if d.attr.replace.is_empty() {
            continue;
        }
        let pick = (dup as usize / 2 + k) % d.attr.replace.len();
        let key = d.attr.replace[pick].0.clone();
        let rule = (key, format!("second_{k}"));
        if dup / 4 % 2 == 0 {
            d.attr.replace.push(rule);
        } else {
            d.attr.replace.insert(0, rule);
        }
    }
}

fn c15_subs() -> Vec<Box<dyn Sub>> {
    let o = || DefOpts { encode: true, bitvec: false, rich_attrs: true, encoded_as: true };
    vec![
        Box::new(Check {
            name: "covering_sets",
            quick: 160,
            thorough: 1_200,
            strat: Box::new(move || {
                use proptest::prelude::*;
                // definitions plus built-in expressions in one corpus program
                (crate::gen::program(2..6, o()), crate::gen::builtin_program(false), any::<u8>()).prop_map(|(mut p, b, dup)| {
                    p.roots.extend(b.roots.into_iter().filter(|r| !r.uses_bitvec()));
                    c15_duplicate_search_keys(&mut p, dup);
                    ProgCase { prog: p, entropies: vec![] }
                }).boxed()
            }),
            body: Box::new(|c: &ProgCase, obs: &mut Obs| crate::p_features::features_body(c, obs, &crate::p_features::quick_sets())),
            guard_death: false,
            max_shrink: 48,
        }),
        Box::new(Check {
            name: "deep_graphs",
            quick: 48,
            thorough: 400,
            strat: Box::new(|| {
                use proptest::prelude::*;
                crate::gen::deep_program().prop_map(|p| ProgCase { prog: p, entropies: vec![] }).boxed()
            }),
            body: Box::new(|c: &ProgCase, obs: &mut Obs| {
                let depth = c.prog.defs.len();
                obs.class(if depth > 16 { "deep/chain_over_16_levels" } else { "deep/chain_up_to_16_levels" });
                crate::p_features::features_body(c, obs, &crate::p_features::quick_sets())
            }),
            guard_death: false,
            max_shrink: 32,
        }),
        Box::new(Check {
            name: "bitvec_lane",
            quick: 60,
            thorough: 600,
            strat: Box::new(|| {
                use proptest::prelude::*;
                crate::gen::builtin_program(false).prop_map(|mut p| {
                    p.roots.push(crate::ast::TE::BitVec(8, false));
                    p.roots.push(crate::ast::TE::Option(Box::new(crate::ast::TE::BitVec(64, true))));
                    ProgCase { prog: p, entropies: vec![] }
                }).boxed()
            }),
            body: Box::new(|c: &ProgCase, obs: &mut Obs| {
                let sets: Vec<Vec<&'static str>> = vec![vec!["bit-vec"], vec!["bit-vec", "docs"], vec!["bit-vec", "std", "serde"], vec!["std", "serde", "decode", "bit-vec", "schema", "docs"]];
                crate::p_features::features_body(c, obs, &sets)
            }),
            guard_death: false,
            max_shrink: 48,
        }),
        Box::new(Check {
            name: "all_sets",
            quick: 0,
            thorough: 160,
            strat: Box::new(move || {
                use proptest::prelude::*;
                (crate::gen::program(2..6, DefOpts { encode: true, bitvec: false, rich_attrs: true, encoded_as: true }), crate::gen::builtin_program(false), any::<u8>()).prop_map(|(mut p, b, dup)| {
                    p.roots.extend(b.roots.into_iter().filter(|r| !r.uses_bitvec()));
                    c15_duplicate_search_keys(&mut p, dup);
                    ProgCase { prog: p, entropies: vec![] }
                }).boxed()
            }),
            body: Box::new(|c: &ProgCase, obs: &mut Obs| crate::p_features::features_body(c, obs, &crate::p_features::all_sets())),
            guard_death: false,
            max_shrink: 32,
        }),
    ]
}

fn real_types_sub(name: &'static str, quick: u64, thorough: u64, body: fn(&ProgCase, &mut Obs) -> Result<(), String>) -> Vec<Box<dyn Sub>> {
    vec![Box::new(Check { name, quick, thorough, strat: Box::new(|| mixed_case(1)), body: Box::new(body), guard_death: false, max_shrink: 96 })]
}

pub fn all() -> Vec<PropDef> {
    vec![
        PropDef {
            id: "C01",
            rule: "second engine (generated programs): registries of real Rust types - 1-3 generated derive inputs (generics, recursion, PhantomData, lifetimes) plus built-in type expressions - printed by a compiled program; oracle = dense and closed, ids handed out resolve, retain under a generated mask is again dense and closed; non-trivial and distinct as in the first engine",
            assumptions: &[],
            subs: || real_types_sub("derived_registries", 500, 12_000, c01_prog_body),
            extra: None,
        },
        PropDef {
            id: "C02",
            rule: "second engine (generated programs): inside each compiled program every (MetaType, id) pair reachable from the registered roots is compared with MetaType::type_info() through every reference (vsupport::sim); roots are generated derive inputs and nested built-in constructors; non-trivial = at least two (type, id) pairs compared",
            assumptions: &[],
            subs: || real_types_sub("faithful_image_real_types", 600, 16_000, c02_prog_body),
            extra: None,
        },
        PropDef {
            id: "C11",
            rule: "second engine (generated programs): the same compiled program run in two processes prints byte-identical registries; a second program registering the same roots in another order prints a registry isomorphic under the root-induced renaming; roots are generated derive inputs and built-in type expressions",
            assumptions: &[],
            subs: || real_types_sub("reproducible_across_processes", 300, 8_000, c11_prog_body),
            extra: None,
        },
        PropDef {
            id: "C15",
            rule: "generated corpus programs (2-5 derived definitions with every attribute class plus built-in type expressions; a lane with BitVec; a lane of deep branching graphs: chains of 6-39 derived definitions linked through 1-3 built-in layers and built-in expressions nested 4-35 levels) compiled and run against scale-info built under several feature sets: quick = 6 covering sets (none, std, serde+decode without std, bit-vec+docs, schema, all), thorough = all 48 distinct sets; oracle = byte equality of encode(PortableRegistry) for sets with equal docs setting, and across docs on/off equality after blanking docs plus docs-off contained in docs-on; non-trivial = a (program, pair of differing feature sets), distinct by that triple",
            assumptions: &["no Wasm target is installed: no_std means the host build without the std feature", "the derive feature is always on (the corpus needs it)"],
            subs: c15_subs,
            extra: None,
        },
        PropDef {
            id: "C13",
            rule: "one generated generic definition per program (struct or enum; parameters used directly, in Vec/Option/tuple/array/Box/BTreeMap, in PhantomData, through T::A and <T as Tr>::B, in self-referential positions, as compact members, in #[codec(skip)] members and variants of types without type info; up to two lifetimes incl. 'b: 'a, const parameter, defaults, inline bounds, where-clauses, raw identifiers, skip_type_params, explicit bounds(..) written with and without 'static) with 1-3 instantiations chosen so that exactly the stated premises hold; oracle = rustc accepts the definition and assert_type_info::<Inst>() (twin without the derive must compile too), type_info() runs and lists parameters Some/None per skip_type_params; non-trivial = at least one type parameter, distinct by case",
            assumptions: &["relaxed bounds (T: ?Sized) are outside the stated grammar; mutually recursive generic definitions are generated only with the bounds attribute they need (sub-check recursive_definitions_with_bounds: four templates with variation)", "rustc's trait solver is the oracle"],
            subs: c13_subs,
            extra: None,
        },
        PropDef {
            id: "C20",
            rule: "negative programs, one defect each, every one with a positive twin that differs only in the defect: type without a path, variant without an index, field without a type, named member among unnamed, unnamed among named, member on a unit field set - in compile-time and portable form, struct and variant position, with surrounding setters varied and with builder states obtained through Default::default(); derive: unions, unknown item-level scale_info keys, repeated bounds / skip_type_params / capture_docs / crate (same list, separate attributes, other attributes in between), invalid capture_docs strings, bounds(..) leaving a non-skipped parameter unbound (fixed templates plus generated definitions of 2-4 parameters each bounded / skipped / both / neither), and generated attribute layouts (known keys spread over 1-4 lists with other attributes in between, the repeated or unknown key at any position, struct / tuple struct / enum); oracle = twin compiles, negative does not, no typo-class error, builder negatives fail with a type error at the builder call, derive negatives additionally leave `X: TypeInfo` unsatisfied at a use site; non-trivial = every program, distinct by source text",
            assumptions: &["the wording of scale-info's error messages is never matched", "unknown scale_info keys on members are outside the anchored item-level parser and not generated"],
            subs: c20_subs,
            extra: None,
        },
        PropDef {
            id: "C17",
            rule: "generated builder call chains (type / fields / field / variants / variant builders, compile-time and portable form, every optional part present or absent, setter orders permuted, members of PhantomData type among the supplied ones) compiled and run against scale-info with the docs feature on and off; plus generated definitions and built-in type expressions with PhantomData in every position; oracle = the built Type holds exactly the supplied path, parameters, members, indices, type names and docs in order, minus PhantomData members, with .docs() kept iff the feature is on and .docs_always() always; no registry entry lists a member whose type is PhantomData; non-trivial = chain with >= 2 members/variants and an optional part set, or a program containing PhantomData, distinct by (case, docs setting)",
            assumptions: &["calling the same setter twice is not generated (the statement does not say which call wins)", "the portable docs setter exists only with the docs feature, so portable docs are only supplied there"],
            subs: c17_prog_subs,
            extra: None,
        },
        PropDef {
            id: "C03",
            rule: "generated programs of 1-3 definitions deriving TypeInfo and Encode (named/unnamed/unit, generics instantiated, nested built-ins, recursion, PhantomData, skip / compact / index / encoded_as, explicit discriminants) x 12 entropy-driven values per root; each program is compiled by rustc against the current tree and run; oracle = schema-directed decoder over the printed registry consumes each encoding exactly and equals the value's model; a program that fails to compile is judged by its twin without the TypeInfo derive; non-trivial = definition with >= 2 encoded members or >= 2 variants and an encoding of >= 2 bytes, distinct by (root, encoding)",
            assumptions: &["variant index rule of the codec derive in the cargo cache (3.7.5): codec(index) > discriminant > position among non-skipped variants", "BinaryHeap element order is not asserted", "the registry printed by the program is read with the harness's reference decoder"],
            subs: c03_subs,
            extra: None,
        },
        PropDef {
            id: "C04",
            rule: "generated type expressions over all built-in constructors (depth <= 3, tuples up to 18 with values and up to 20 shape-only, all Compact / NonZero widths, all BitVec store x order pairs, PhantomData in every position) x 12 values; oracle as C03; char and 19/20-tuples are checked for their documented shape; non-trivial = expression of depth >= 2 with an encoding of >= 2 bytes, distinct by (expression, encoding)",
            assumptions: &["value generators and expected values for std types are hand-written in harness/vsupport"],
            subs: c04_subs,
            extra: None,
        },
        PropDef {
            id: "C09",
            rule: "generated definitions with docs (/// and #[doc=..], 0-4 leading spaces, quotes, braces, Unicode, distractor attributes), capture_docs, replace_segment, rename, skip_type_params, crate, nested modules, raw identifiers, lifetimes, macro_rules!-supplied field types, whitespace-perturbed type text; compiled and run against scale-info with the docs feature on and off; oracle = expectation computed from the AST (path with replacements, parameters Some/None, members by name / declared MetaType / squashed type text, variant names and indices, docs per capture mode and feature); non-trivial = a definition with at least one attribute or doc line and at least one member, distinct by (definition, docs setting)",
            assumptions: &["block doc comments, inner docs, duplicate or chained replacement rules are not generated (the statement does not fix their meaning)", "type names are compared after deleting all whitespace"],
            subs: c09_subs,
            extra: None,
        },
    ]
}
