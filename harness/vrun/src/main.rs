//! vrun — worker + supervisor for the run-time (layer R) checks.
//!   vrun <Cxx> <quick|thorough>           run a property (under the supervisor)
//!   vrun <Cxx> --replay <file>            re-execute one saved case
fn main() {
    vcore::cli::main_with(vcore::props::all())
}
