#![no_main]
// libFuzzer target: the semantic oracle is vcore::fuzz_entry::scale_decode (same oracle as the proptest check)
use libfuzzer_sys::fuzz_target;

fuzz_target!(|data: &[u8]| {
    if let Err(e) = vcore::fuzz_entry::scale_decode(data) {
        // infrastructure problems of the harness are not findings
        if e.starts_with("harness") {
            return;
        }
        panic!("VIOLATION {}", e);
    }
});
