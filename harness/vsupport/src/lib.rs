//! Support library linked into every generated program: entropy-driven value generation (`Gen`),
//! the expected-decoded-value model (`Val`) and a dump of compile-time type descriptions.
//! Written without `std` assumptions beyond alloc-backed std types; the generated programs are
//! ordinary std binaries whatever features scale-info was built with.

use parity_scale_codec::Compact;
use std::borrow::Cow;
use std::collections::{BTreeMap, BTreeSet, BinaryHeap, VecDeque};
use std::marker::PhantomData;
use std::rc::Rc;
use std::sync::Arc;

// ----------------------------------------------------------------------------------- entropy

pub struct Entropy<'a> {
    data: &'a [u8],
    pos: usize,
}

impl<'a> Entropy<'a> {
    pub fn new(data: &'a [u8]) -> Self {
        Entropy { data, pos: 0 }
    }
    pub fn byte(&mut self) -> u8 {
        let b = self.data.get(self.pos).copied().unwrap_or(0);
        self.pos += 1;
        b
    }
    pub fn exhausted(&self) -> bool {
        self.pos >= self.data.len()
    }
    pub fn below(&mut self, n: usize) -> usize {
        if n <= 1 {
            0
        } else if n <= 256 {
            self.byte() as usize % n
        } else {
            (((self.byte() as usize) << 8) | self.byte() as usize) % n
        }
    }
    /// collection lengths: mostly small, sometimes straddling the one-byte compact boundary
    pub fn len(&mut self, fuel: u32) -> usize {
        if self.exhausted() || fuel == 0 {
            return 0;
        }
        match self.byte() {
            0..=99 => 0,
            100..=179 => 1,
            180..=229 => 2,
            230..=249 => 3 + self.below(4),
            250..=253 => 62 + self.below(4),
            _ => 7 + self.below(9),
        }
    }
    pub fn u128(&mut self, bits: u32) -> u128 {
        let mask: u128 = if bits >= 128 { u128::MAX } else { (1u128 << bits) - 1 };
        let sel = self.byte();
        let v: u128 = match sel % 16 {
            0 => 0,
            1 => 1,
            2 => mask,
            3 => mask >> 1,
            4 => (mask >> 1) + 1,
            5 => 63,
            6 => 64,
            7 => 16383,
            8 => 16384,
            9 => (1 << 30) - 1,
            10 => 1 << 30,
            11 => self.byte() as u128,
            _ => {
                let mut x: u128 = 0;
                for _ in 0..((bits + 7) / 8) {
                    x = (x << 8) | self.byte() as u128;
                }
                x
            }
        };
        v & mask
    }
    pub fn string(&mut self) -> String {
        const POOL: [&str; 10] = ["", "a", "hello", "é", "\u{10348}", "a\"b\\c", "\u{0}", "line\nbreak", "ünï", "r#type"];
        let sel = self.byte();
        if sel < 200 {
            POOL[sel as usize % POOL.len()].to_string()
        } else if sel < 250 {
            let n = self.below(12);
            (0..n).map(|_| (b'a' + self.byte() % 26) as char).collect()
        } else {
            "x".repeat(60 + self.below(8))
        }
    }
}

// --------------------------------------------------------------------------------------- Val

#[derive(Clone, Debug, PartialEq, Eq, PartialOrd, Ord)]
pub enum Val {
    Bool(bool),
    U(u128),
    I(i128),
    Str(String),
    Seq(Vec<Val>),
    /// a sequence whose order is an implementation detail of std (BinaryHeap): sorted
    Bag(Vec<Val>),
    Arr(Vec<Val>),
    Tup(Vec<Val>),
    Comp(Vec<(Option<String>, Val)>),
    Var(String, Vec<(Option<String>, Val)>),
    Bits(Vec<bool>),
    /// a PhantomData value: dropped when it is a member of a composite, variant or tuple (the
    /// metadata erases such members); anywhere else it stands for an empty composite
    Erased,
}

fn keep(fs: Vec<(Option<String>, Val)>) -> Vec<(Option<String>, Val)> {
    fs.into_iter().filter(|(_, v)| *v != Val::Erased).collect()
}

/// composite / variant / tuple constructors that erase PhantomData members
pub fn comp(fs: Vec<(Option<String>, Val)>) -> Val {
    Val::Comp(keep(fs))
}
pub fn var(name: &str, fs: Vec<(Option<String>, Val)>) -> Val {
    Val::Var(name.to_string(), keep(fs))
}
pub fn tup(xs: Vec<Val>) -> Val {
    Val::Tup(xs.into_iter().filter(|v| *v != Val::Erased).collect())
}

fn esc(s: &str, out: &mut String) {
    out.push('"');
    for c in s.chars() {
        match c {
            '"' => out.push_str("\\\""),
            '\\' => out.push_str("\\\\"),
            c if (c as u32) < 0x20 => out.push_str(&format!("\\u{:04x}", c as u32)),
            c => out.push(c),
        }
    }
    out.push('"');
}

fn fields_json(fs: &[(Option<String>, Val)], out: &mut String) {
    out.push('[');
    for (i, (n, v)) in fs.iter().enumerate() {
        if i > 0 {
            out.push(',');
        }
        out.push('[');
        match n {
            Some(n) => esc(n, out),
            None => out.push_str("null"),
        }
        out.push(',');
        v.json_into(out);
        out.push(']');
    }
    out.push(']');
}

impl Val {
    pub fn json_into(&self, out: &mut String) {
        let list = |tag: &str, xs: &[Val], out: &mut String| {
            out.push_str("{\"");
            out.push_str(tag);
            out.push_str("\":[");
            for (i, x) in xs.iter().enumerate() {
                if i > 0 {
                    out.push(',');
                }
                x.json_into(out);
            }
            out.push_str("]}");
        };
        match self {
            Val::Bool(b) => out.push_str(&format!("{{\"Bool\":{b}}}")),
            // numbers as strings: u128 does not fit JSON numbers
            Val::U(n) => out.push_str(&format!("{{\"U\":\"{n}\"}}")),
            Val::I(n) => out.push_str(&format!("{{\"I\":\"{n}\"}}")),
            Val::Str(s) => {
                out.push_str("{\"Str\":");
                esc(s, out);
                out.push('}')
            }
            Val::Seq(xs) => list("Seq", xs, out),
            Val::Bag(xs) => list("Bag", xs, out),
            Val::Arr(xs) => list("Arr", xs, out),
            Val::Tup(xs) => list("Tup", xs, out),
            Val::Comp(fs) => {
                out.push_str("{\"Comp\":");
                fields_json(fs, out);
                out.push('}')
            }
            Val::Var(n, fs) => {
                out.push_str("{\"Var\":[");
                esc(n, out);
                out.push(',');
                fields_json(fs, out);
                out.push_str("]}")
            }
            Val::Erased => out.push_str("{\"Erased\":null}"),
            Val::Bits(bs) => {
                out.push_str("{\"Bits\":\"");
                for b in bs {
                    out.push(if *b { '1' } else { '0' })
                }
                out.push_str("\"}")
            }
        }
    }
    pub fn to_json(&self) -> String {
        let mut s = String::new();
        self.json_into(&mut s);
        s
    }
}

pub fn hex(b: &[u8]) -> String {
    let mut s = String::with_capacity(b.len() * 2);
    for x in b {
        s.push_str(&format!("{x:02x}"));
    }
    s
}

pub fn unhex(s: &str) -> Vec<u8> {
    (0..s.len() / 2).map(|i| u8::from_str_radix(&s[2 * i..2 * i + 2], 16).unwrap_or(0)).collect()
}

// --------------------------------------------------------------------------------------- Gen

pub trait Gen: Sized {
    /// produce a value from entropy; `fuel` bounds recursion depth and collection growth
    fn gen(e: &mut Entropy, fuel: u32) -> Self;
    /// the value a schema-directed decoder must recover from `self.encode()`
    fn model(&self) -> Val;
}

macro_rules! gen_uint {
    ($($t:ty => $bits:expr),*) => {$(
        impl Gen for $t {
            fn gen(e: &mut Entropy, _fuel: u32) -> Self { e.u128($bits) as $t }
            fn model(&self) -> Val { Val::U(*self as u128) }
        }
    )*};
}
gen_uint!(u8 => 8, u16 => 16, u32 => 32, u64 => 64, u128 => 128);

macro_rules! gen_int {
    ($($t:ty => $bits:expr),*) => {$(
        impl Gen for $t {
            fn gen(e: &mut Entropy, _fuel: u32) -> Self { e.u128($bits) as $t }
            fn model(&self) -> Val { Val::I(*self as i128) }
        }
    )*};
}
gen_int!(i8 => 8, i16 => 16, i32 => 32, i64 => 64, i128 => 128);

impl Gen for bool {
    fn gen(e: &mut Entropy, _fuel: u32) -> Self {
        e.byte() % 2 == 1
    }
    fn model(&self) -> Val {
        Val::Bool(*self)
    }
}

impl Gen for String {
    fn gen(e: &mut Entropy, _fuel: u32) -> Self {
        e.string()
    }
    fn model(&self) -> Val {
        Val::Str(self.clone())
    }
}

impl Gen for &'static str {
    fn gen(e: &mut Entropy, _fuel: u32) -> Self {
        Box::leak(e.string().into_boxed_str())
    }
    fn model(&self) -> Val {
        Val::Str(self.to_string())
    }
}

impl Gen for () {
    fn gen(_e: &mut Entropy, _fuel: u32) -> Self {}
    fn model(&self) -> Val {
        Val::Tup(vec![])
    }
}

impl<T> Gen for PhantomData<T> {
    fn gen(_e: &mut Entropy, _fuel: u32) -> Self {
        PhantomData
    }
    fn model(&self) -> Val {
        Val::Erased
    }
}

impl<T: Gen, const N: usize> Gen for [T; N] {
    fn gen(e: &mut Entropy, fuel: u32) -> Self {
        core::array::from_fn(|_| T::gen(e, fuel.saturating_sub(1)))
    }
    fn model(&self) -> Val {
        Val::Arr(self.iter().map(|x| x.model()).collect())
    }
}

fn gen_vec<T: Gen>(e: &mut Entropy, fuel: u32) -> Vec<T> {
    let n = e.len(fuel);
    (0..n).map(|_| T::gen(e, fuel.saturating_sub(1))).collect()
}

impl<T: Gen> Gen for Vec<T> {
    fn gen(e: &mut Entropy, fuel: u32) -> Self {
        gen_vec(e, fuel)
    }
    fn model(&self) -> Val {
        Val::Seq(self.iter().map(|x| x.model()).collect())
    }
}

impl<T: Gen> Gen for VecDeque<T> {
    fn gen(e: &mut Entropy, fuel: u32) -> Self {
        let v: Vec<T> = gen_vec(e, fuel);
        let mut d: VecDeque<T> = VecDeque::new();
        // exercise the ring buffer: some elements go to the front
        for (i, x) in v.into_iter().enumerate() {
            if i % 3 == 2 {
                d.push_front(x)
            } else {
                d.push_back(x)
            }
        }
        d
    }
    fn model(&self) -> Val {
        Val::Seq(self.iter().map(|x| x.model()).collect())
    }
}

macro_rules! gen_ptr {
    ($($p:ident),*) => {$(
        impl<T: Gen> Gen for $p<T> {
            fn gen(e: &mut Entropy, fuel: u32) -> Self { $p::new(T::gen(e, fuel)) }
            fn model(&self) -> Val { (**self).model() }
        }
    )*};
}
gen_ptr!(Box, Rc, Arc);

impl<T: Gen + 'static> Gen for &'static T {
    fn gen(e: &mut Entropy, fuel: u32) -> Self {
        Box::leak(Box::new(T::gen(e, fuel)))
    }
    fn model(&self) -> Val {
        (**self).model()
    }
}

impl<T: Gen + 'static> Gen for &'static [T] {
    fn gen(e: &mut Entropy, fuel: u32) -> Self {
        Box::leak(gen_vec::<T>(e, fuel).into_boxed_slice())
    }
    fn model(&self) -> Val {
        Val::Seq(self.iter().map(|x| x.model()).collect())
    }
}

impl<T: Gen> Gen for Option<T> {
    fn gen(e: &mut Entropy, fuel: u32) -> Self {
        if fuel == 0 || e.byte() % 3 == 0 {
            None
        } else {
            Some(T::gen(e, fuel.saturating_sub(1)))
        }
    }
    fn model(&self) -> Val {
        match self {
            None => Val::Var("None".into(), vec![]),
            Some(x) => var("Some", vec![(None, x.model())]),
        }
    }
}

impl<T: Gen, E: Gen> Gen for Result<T, E> {
    fn gen(e: &mut Entropy, fuel: u32) -> Self {
        if e.byte() % 2 == 0 {
            Ok(T::gen(e, fuel.saturating_sub(1)))
        } else {
            Err(E::gen(e, fuel.saturating_sub(1)))
        }
    }
    fn model(&self) -> Val {
        match self {
            Ok(x) => var("Ok", vec![(None, x.model())]),
            Err(x) => var("Err", vec![(None, x.model())]),
        }
    }
}

impl Gen for Cow<'static, str> {
    fn gen(e: &mut Entropy, _fuel: u32) -> Self {
        if e.byte() % 2 == 0 {
            Cow::Owned(e.string())
        } else {
            Cow::Borrowed(Box::leak(e.string().into_boxed_str()))
        }
    }
    fn model(&self) -> Val {
        Val::Comp(vec![(None, Val::Str(self.to_string()))])
    }
}

impl<T: Gen + Clone + 'static> Gen for Cow<'static, [T]> {
    fn gen(e: &mut Entropy, fuel: u32) -> Self {
        let v: Vec<T> = gen_vec(e, fuel);
        if e.byte() % 2 == 0 {
            Cow::Owned(v)
        } else {
            Cow::Borrowed(Box::leak(v.into_boxed_slice()))
        }
    }
    fn model(&self) -> Val {
        Val::Comp(vec![(None, Val::Seq(self.iter().map(|x| x.model()).collect()))])
    }
}

impl<T: Gen + Clone + 'static> Gen for Cow<'static, T> {
    fn gen(e: &mut Entropy, fuel: u32) -> Self {
        let v = T::gen(e, fuel);
        if e.byte() % 2 == 0 {
            Cow::Owned(v)
        } else {
            Cow::Borrowed(Box::leak(Box::new(v)))
        }
    }
    fn model(&self) -> Val {
        comp(vec![(None, (**self).model())])
    }
}

impl<K: Gen + Ord, V: Gen> Gen for BTreeMap<K, V> {
    fn gen(e: &mut Entropy, fuel: u32) -> Self {
        let n = e.len(fuel);
        (0..n).map(|_| (K::gen(e, fuel.saturating_sub(1)), V::gen(e, fuel.saturating_sub(1)))).collect()
    }
    fn model(&self) -> Val {
        Val::Comp(vec![(None, Val::Seq(self.iter().map(|(k, v)| tup(vec![k.model(), v.model()])).collect()))])
    }
}

impl<T: Gen + Ord> Gen for BTreeSet<T> {
    fn gen(e: &mut Entropy, fuel: u32) -> Self {
        gen_vec::<T>(e, fuel).into_iter().collect()
    }
    fn model(&self) -> Val {
        Val::Comp(vec![(None, Val::Seq(self.iter().map(|x| x.model()).collect()))])
    }
}

impl<T: Gen + Ord> Gen for BinaryHeap<T> {
    fn gen(e: &mut Entropy, fuel: u32) -> Self {
        gen_vec::<T>(e, fuel).into_iter().collect()
    }
    fn model(&self) -> Val {
        let mut v: Vec<Val> = self.iter().map(|x| x.model()).collect();
        v.sort();
        Val::Comp(vec![(None, Val::Bag(v))])
    }
}

macro_rules! gen_compact {
    ($($t:ty),*) => {$(
        impl Gen for Compact<$t> {
            fn gen(e: &mut Entropy, fuel: u32) -> Self { Compact(<$t as Gen>::gen(e, fuel)) }
            fn model(&self) -> Val { Val::U(self.0 as u128) }
        }
    )*};
}
gen_compact!(u8, u16, u32, u64, u128);

impl Gen for Compact<()> {
    fn gen(_e: &mut Entropy, _fuel: u32) -> Self {
        Compact(())
    }
    fn model(&self) -> Val {
        Val::Tup(vec![])
    }
}

impl<T: Gen + PartialOrd> Gen for core::ops::Range<T> {
    fn gen(e: &mut Entropy, fuel: u32) -> Self {
        T::gen(e, fuel)..T::gen(e, fuel)
    }
    fn model(&self) -> Val {
        Val::Comp(vec![(Some("start".into()), self.start.model()), (Some("end".into()), self.end.model())])
    }
}

impl<T: Gen + PartialOrd> Gen for core::ops::RangeInclusive<T> {
    fn gen(e: &mut Entropy, fuel: u32) -> Self {
        T::gen(e, fuel)..=T::gen(e, fuel)
    }
    fn model(&self) -> Val {
        Val::Comp(vec![(Some("start".into()), self.start().model()), (Some("end".into()), self.end().model())])
    }
}

macro_rules! gen_nonzero {
    ($($nz:ident : $t:ty : $v:ident),*) => {$(
        impl Gen for core::num::$nz {
            fn gen(e: &mut Entropy, fuel: u32) -> Self {
                let x = <$t as Gen>::gen(e, fuel);
                core::num::$nz::new(x).unwrap_or(core::num::$nz::new(1).unwrap())
            }
            fn model(&self) -> Val { Val::Comp(vec![(None, Val::$v(self.get() as _))]) }
        }
    )*};
}
gen_nonzero!(NonZeroU8: u8: U, NonZeroU16: u16: U, NonZeroU32: u32: U, NonZeroU64: u64: U, NonZeroU128: u128: U,
             NonZeroI8: i8: I, NonZeroI16: i16: I, NonZeroI32: i32: I, NonZeroI64: i64: I, NonZeroI128: i128: I);

impl Gen for core::time::Duration {
    fn gen(e: &mut Entropy, fuel: u32) -> Self {
        core::time::Duration::new(u64::gen(e, fuel) >> 1, u32::gen(e, fuel) % 1_000_000_000)
    }
    fn model(&self) -> Val {
        Val::Comp(vec![(None, Val::U(self.as_secs() as u128)), (None, Val::U(self.subsec_nanos() as u128))])
    }
}

macro_rules! gen_tuple {
    ($($name:ident),+) => {
        impl<$($name: Gen),+> Gen for ($($name,)+) {
            fn gen(e: &mut Entropy, fuel: u32) -> Self {
                ($($name::gen(e, fuel.saturating_sub(1)),)+)
            }
            #[allow(non_snake_case)]
            fn model(&self) -> Val {
                let ($($name,)+) = self;
                tup(vec![$($name.model()),+])
            }
        }
    };
}
gen_tuple!(A);
gen_tuple!(A, B);
gen_tuple!(A, B, C);
gen_tuple!(A, B, C, D);
gen_tuple!(A, B, C, D, E);
gen_tuple!(A, B, C, D, E, F);
gen_tuple!(A, B, C, D, E, F, G);
gen_tuple!(A, B, C, D, E, F, G, H);
gen_tuple!(A, B, C, D, E, F, G, H, I);
gen_tuple!(A, B, C, D, E, F, G, H, I, J);
gen_tuple!(A, B, C, D, E, F, G, H, I, J, K);
gen_tuple!(A, B, C, D, E, F, G, H, I, J, K, L);
gen_tuple!(A, B, C, D, E, F, G, H, I, J, K, L, M);
gen_tuple!(A, B, C, D, E, F, G, H, I, J, K, L, M, N);
gen_tuple!(A, B, C, D, E, F, G, H, I, J, K, L, M, N, O);
gen_tuple!(A, B, C, D, E, F, G, H, I, J, K, L, M, N, O, P);
gen_tuple!(A, B, C, D, E, F, G, H, I, J, K, L, M, N, O, P, Q);
gen_tuple!(A, B, C, D, E, F, G, H, I, J, K, L, M, N, O, P, Q, R);

#[cfg(feature = "bit-vec")]
mod bits {
    use super::*;
    use bitvec::{order::BitOrder, store::BitStore, vec::BitVec};
    impl<T: BitStore, O: BitOrder> Gen for BitVec<T, O> {
        fn gen(e: &mut Entropy, fuel: u32) -> Self {
            let n = match e.byte() % 8 {
                0 => 0,
                1 => 1,
                2 => 7,
                3 => 8,
                4 => 9,
                5 => 63 + e.below(4),
                _ => e.len(fuel.max(1)) * 5,
            };
            let mut v: BitVec<T, O> = BitVec::new();
            for _ in 0..n {
                v.push(e.byte() % 2 == 1);
            }
            v
        }
        fn model(&self) -> Val {
            Val::Bits(self.iter().map(|b| *b).collect())
        }
    }
}

// ------------------------------------------------------------ dump of compile-time descriptions

use scale_info::{form::MetaForm, Field, Type, TypeDef};

fn jstrs(v: &[&'static str], out: &mut String) {
    out.push('[');
    for (i, s) in v.iter().enumerate() {
        if i > 0 {
            out.push(',');
        }
        esc(s, out);
    }
    out.push(']');
}

fn jopt(v: &Option<&'static str>, out: &mut String) {
    match v {
        Some(s) => esc(s, out),
        None => out.push_str("null"),
    }
}

fn jfields(fs: &[Field<MetaForm>], out: &mut String) {
    out.push('[');
    for (i, f) in fs.iter().enumerate() {
        if i > 0 {
            out.push(',');
        }
        out.push_str("{\"name\":");
        jopt(&f.name, out);
        out.push_str(",\"type_name\":");
        jopt(&f.type_name, out);
        out.push_str(",\"docs\":");
        jstrs(&f.docs, out);
        out.push('}');
    }
    out.push(']');
}

/// JSON rendering of a `Type<MetaForm>` (everything except the MetaTypes themselves, which the
/// generated program compares in place with `MetaType::new::<Declared>()`)
pub fn dump_type(t: &Type<MetaForm>) -> String {
    let mut out = String::new();
    out.push_str("{\"path\":");
    jstrs(&t.path.segments, &mut out);
    out.push_str(",\"params\":[");
    for (i, p) in t.type_params.iter().enumerate() {
        if i > 0 {
            out.push(',');
        }
        out.push('[');
        esc(p.name, &mut out);
        out.push_str(if p.ty.is_some() { ",true]" } else { ",false]" });
    }
    out.push_str("],\"docs\":");
    jstrs(&t.docs, &mut out);
    match &t.type_def {
        TypeDef::Composite(c) => {
            out.push_str(",\"kind\":\"composite\",\"fields\":");
            jfields(&c.fields, &mut out);
        }
        TypeDef::Variant(v) => {
            out.push_str(",\"kind\":\"variant\",\"variants\":[");
            for (i, var) in v.variants.iter().enumerate() {
                if i > 0 {
                    out.push(',');
                }
                out.push_str("{\"name\":");
                esc(var.name, &mut out);
                out.push_str(&format!(",\"index\":{},\"docs\":", var.index));
                jstrs(&var.docs, &mut out);
                out.push_str(",\"fields\":");
                jfields(&var.fields, &mut out);
                out.push('}');
            }
            out.push(']');
        }
        TypeDef::Sequence(_) => out.push_str(",\"kind\":\"sequence\""),
        TypeDef::Array(a) => out.push_str(&format!(",\"kind\":\"array\",\"len\":{}", a.len)),
        TypeDef::Tuple(t) => out.push_str(&format!(",\"kind\":\"tuple\",\"arity\":{}", t.fields.len())),
        TypeDef::Primitive(p) => out.push_str(&format!(",\"kind\":\"primitive\",\"prim\":\"{:?}\"", p)),
        TypeDef::Compact(_) => out.push_str(",\"kind\":\"compact\""),
        TypeDef::BitSequence(_) => out.push_str(",\"kind\":\"bitsequence\""),
    }
    out.push('}');
    out
}

/// the member MetaTypes of a definition, in order (fields of a composite, or all fields of all
/// variants), for in-program comparison with the declared types
pub fn member_types(t: &Type<MetaForm>) -> Vec<scale_info::MetaType> {
    match &t.type_def {
        TypeDef::Composite(c) => c.fields.iter().map(|f| f.ty).collect(),
        TypeDef::Variant(v) => v.variants.iter().flat_map(|v| v.fields.iter().map(|f| f.ty)).collect(),
        TypeDef::Tuple(t) => t.fields.clone(),
        _ => vec![],
    }
}

pub fn param_types(t: &Type<MetaForm>) -> Vec<Option<scale_info::MetaType>> {
    t.type_params.iter().map(|p| p.ty).collect()
}

pub fn read_entropies() -> Vec<Vec<u8>> {
    // entropy strings arrive as hex arguments
    std::env::args().skip(1).map(|a| unhex(&a)).collect()
}

// ------------------------------------------------------------------------------------------------
// coinductive comparison of compile-time definitions with a portable registry (C02 on real types)

use scale_info::{MetaType, PortableRegistry};

/// For every `(MetaType, id)` root: the entry `id` of `reg` must be the image of
/// `MetaType::type_info()` — same path, parameter names, members (names, type names, docs, order),
/// variant names / indices / docs, array length, docs — and so on through every reference.
/// Returns the number of distinct (type, id) pairs visited.
pub fn sim(reg: &PortableRegistry, roots: &[(MetaType, u32)]) -> Result<usize, String> {
    use std::collections::HashSet;
    let mut visited: HashSet<(core::any::TypeId, u32)> = HashSet::new();
    let mut queue: Vec<(MetaType, u32)> = roots.to_vec();
    while let Some((m, id)) = queue.pop() {
        if !visited.insert((m.type_id(), id)) {
            continue;
        }
        let got = reg.types.iter().find(|t| t.id == id).map(|t| &t.ty).ok_or_else(|| format!("id {id} does not resolve"))?;
        let want = m.type_info();
        let w = format!("entry {id} ({:?})", want.path.segments);
        if got.path.segments.iter().map(|s| AsRef::<str>::as_ref(s)).collect::<Vec<_>>() != want.path.segments {
            return Err(format!("{w}: path {:?}", got.path.segments));
        }
        if got.docs.iter().map(|s| AsRef::<str>::as_ref(s)).collect::<Vec<_>>() != want.docs {
            return Err(format!("{w}: docs {:?} vs {:?}", got.docs, want.docs));
        }
        if got.type_params.len() != want.type_params.len() {
            return Err(format!("{w}: {} parameters vs {}", got.type_params.len(), want.type_params.len()));
        }
        for (g, p) in got.type_params.iter().zip(want.type_params.iter()) {
            if AsRef::<str>::as_ref(&g.name) != p.name {
                return Err(format!("{w}: parameter {:?} vs {:?}", g.name, p.name));
            }
            match (g.ty, p.ty) {
                (None, None) => {}
                (Some(i), Some(mt)) => queue.push((mt, i.id)),
                _ => return Err(format!("{w}: parameter {} Some/None mismatch", p.name)),
            }
        }
        let mut fields = |gf: &[Field<scale_info::form::PortableForm>], wf: &[Field<MetaForm>]| -> Result<(), String> {
            if gf.len() != wf.len() {
                return Err(format!("{w}: {} members vs {}", gf.len(), wf.len()));
            }
            for (g, f) in gf.iter().zip(wf.iter()) {
                if g.name.as_ref().map(|s| AsRef::<str>::as_ref(s)) != f.name || g.type_name.as_ref().map(|s| AsRef::<str>::as_ref(s)) != f.type_name || g.docs.iter().map(|s| AsRef::<str>::as_ref(s)).collect::<Vec<_>>() != f.docs {
                    return Err(format!("{w}: member (name {:?}, type name {:?}, docs {:?}) vs (name {:?}, type name {:?}, docs {:?})", g.name, g.type_name, g.docs, f.name, f.type_name, f.docs));
                }
                queue.push((f.ty, g.ty.id));
            }
            Ok(())
        };
        match (&got.type_def, &want.type_def) {
            (TypeDef::Composite(g), TypeDef::Composite(c)) => fields(&g.fields, &c.fields)?,
            (TypeDef::Variant(g), TypeDef::Variant(v)) => {
                if g.variants.len() != v.variants.len() {
                    return Err(format!("{w}: {} variants vs {}", g.variants.len(), v.variants.len()));
                }
                for (gv, wv) in g.variants.iter().zip(v.variants.iter()) {
                    if AsRef::<str>::as_ref(&gv.name) != wv.name || gv.index != wv.index || gv.docs.iter().map(|s| AsRef::<str>::as_ref(s)).collect::<Vec<_>>() != wv.docs {
                        return Err(format!("{w}: variant ({:?}, {}) vs ({:?}, {})", gv.name, gv.index, wv.name, wv.index));
                    }
                    fields(&gv.fields, &wv.fields)?;
                }
            }
            (TypeDef::Sequence(g), TypeDef::Sequence(s)) => queue.push((s.type_param, g.type_param.id)),
            (TypeDef::Compact(g), TypeDef::Compact(s)) => queue.push((s.type_param, g.type_param.id)),
            (TypeDef::Array(g), TypeDef::Array(a)) => {
                if g.len != a.len {
                    return Err(format!("{w}: array length {} vs {}", g.len, a.len));
                }
                queue.push((a.type_param, g.type_param.id))
            }
            (TypeDef::Tuple(g), TypeDef::Tuple(t)) => {
                if g.fields.len() != t.fields.len() {
                    return Err(format!("{w}: tuple arity {} vs {}", g.fields.len(), t.fields.len()));
                }
                for (gi, mt) in g.fields.iter().zip(t.fields.iter()) {
                    queue.push((*mt, gi.id))
                }
            }
            (TypeDef::Primitive(g), TypeDef::Primitive(p)) => {
                if g != p {
                    return Err(format!("{w}: primitive {:?} vs {:?}", g, p));
                }
            }
            (TypeDef::BitSequence(g), TypeDef::BitSequence(b)) => {
                queue.push((b.bit_store_type, g.bit_store_type.id));
                queue.push((b.bit_order_type, g.bit_order_type.id));
            }
            _ => return Err(format!("{w}: definition kinds differ")),
        }
    }
    Ok(visited.len())
}
