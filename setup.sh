#!/bin/bash
# Offline build of the verification harness (MANIFEST.setup_cmd). Everything comes from files on disk.
set -e
cd "$(dirname "$0")"
export CARGO_NET_OFFLINE=true
./check build
