#!/usr/bin/env python3
"""Line protocol JSON-Schema validator for C19.

usage: validate_stream.py <schema.json>
stdin : one JSON document per line
stdout: one line per document: "ok" or "err <first validation error, single line>"
The schema itself is checked against its declared meta-schema once at start ("schema-ok" line).
"""
import json
import sys

import jsonschema


def main():
    schema = json.load(open(sys.argv[1]))
    cls = jsonschema.validators.validator_for(schema)
    try:
        cls.check_schema(schema)
    except Exception as e:  # noqa: BLE001
        print("schema-err " + str(e).replace("\n", " ")[:400], flush=True)
        return
    validator = cls(schema)
    print("schema-ok " + cls.__name__, flush=True)
    for line in sys.stdin:
        line = line.strip()
        if not line:
            continue
        try:
            doc = json.loads(line)
        except Exception as e:  # noqa: BLE001
            print("err not-json " + str(e).replace("\n", " ")[:200], flush=True)
            continue
        err = next(iter(validator.iter_errors(doc)), None)
        if err is None:
            print("ok", flush=True)
        else:
            where = "/".join(str(p) for p in err.absolute_path)
            print(("err at " + where + ": " + err.message).replace("\n", " ")[:500], flush=True)


main()
